"""Synthetic cycle tables with the real column sets of both centrings (plain JSON recipes + builder)."""
import numpy as np
import pandas as pd
from hypothesis import strategies as st

import ref


@st.composite
def st_table_recipe(draw, min_rows=1, max_rows=25, max_gap=12, first_max=30):
    """{'center', 'first', 'gaps': [...2n...], 'mid': [...], 'feat': [...], 'burst': [...]}"""
    n = draw(st.integers(min_rows, max_rows))
    gaps = draw(st.lists(st.integers(1, max_gap), min_size=2 * n, max_size=2 * n))
    mid = draw(st.lists(st.integers(0, 1000), min_size=2 * n + 1, max_size=2 * n + 1))
    feat = draw(st.lists(st.integers(0, 8), min_size=n, max_size=n))
    burst = draw(st.lists(st.booleans(), min_size=n, max_size=n))
    return {'center': draw(st.sampled_from(['peak', 'trough'])), 'first': draw(st.integers(0, first_max)),
            'gaps': gaps, 'mid': mid, 'feat': feat, 'burst': burst}


def build_table(r, method='cycles', with_samples=True):
    n = len(r['feat'])
    ext = np.concatenate([[r['first']], r['first'] + np.cumsum(r['gaps'])]).astype(int)
    last, cen, nxt = ext[0:-2:2], ext[1::2], ext[2::2]
    nm = ref.names(r['center'])
    # midpoints inside their flanks (inclusive of both extrema)
    mids = [int(a + m % (b - a + 1)) for a, b, m in zip(ext[:-1], ext[1:], r['mid'][1:])]
    zx1, zx2 = np.array(mids[0::2], dtype=int), np.array(mids[1::2], dtype=int)
    lz0 = max(0, int(last[0]) - r['mid'][0] % 4)
    lzx = np.concatenate([[lz0], zx2[:-1]]).astype(int)
    f = np.array(r['feat'], dtype=float)
    d = {}
    if method == 'cycles':
        d['amp_fraction'] = ref.ref_amp_fraction(f)
        d['amp_consistency'] = np.where(np.arange(n) % 5 == 4, np.nan, f / 8.0)
        d['period_consistency'] = (8 - f) / 8.0
        d['monotonicity'] = ((f * 3) % 9) / 8.0
    else:
        d['burst_fraction'] = f / 8.0
    d['period'] = nxt - last
    d['time_peak'] = (zx2 - zx1) if r['center'] == 'peak' else (zx1 - lzx)
    d['time_trough'] = (zx1 - lzx) if r['center'] == 'peak' else (zx2 - zx1)
    d['volt_peak'] = f + 0.5
    d['volt_trough'] = -f - 0.25
    d['time_decay'] = (nxt - cen) if r['center'] == 'peak' else (cen - last)
    d['time_rise'] = (cen - last) if r['center'] == 'peak' else (nxt - cen)
    d['volt_decay'] = f + 1.0
    d['volt_rise'] = f * 0.5 + 1.0
    d['volt_amp'] = (d['volt_decay'] + d['volt_rise']) / 2
    d['time_rdsym'] = d['time_rise'] / d['period']
    d['time_ptsym'] = d['time_peak'] / (d['time_peak'] + d['time_trough']).clip(1)
    d['band_amp'] = f * 0.125 + 1
    if with_samples:
        if r['center'] == 'peak':
            order = [('center', cen), ('lzx', lzx), ('zx2', zx2), ('zx1', zx1), ('last', last), ('next', nxt)]
        else:
            order = [('center', cen), ('lzx', lzx), ('zx1', zx1), ('zx2', zx2), ('last', last), ('next', nxt)]
        for k, v in order:
            d[nm[k]] = v
    d['is_burst'] = np.array(r['burst'], dtype=bool)
    return pd.DataFrame(d)
