"""Shared machinery: parts, sharding, seeding, bucketing, bounded shrinking, replay, evidence.

A property module (props/cNN.py) exposes
    ID, TITLE, RULE, ASSUMPTIONS (list[str]), PARTS (list[Part])
A Part is either
    kind='hyp'  : strategy(tier) -> Hypothesis strategy of JSON-serialisable cases,
    kind='enum' : enum(tier, shard, nshards) -> iterator of JSON-serialisable cases (a finite,
                  deterministic domain partitioned over the shards),
and check(case, rec) which raises Violation(clause, detail) when the property is broken.

Every case is plain JSON data; arrays are rendered from it deterministically inside check(), so a
replay file is just the case.  All randomness comes from Hypothesis draws seeded from VERIF_SEED.
"""
import hashlib
import importlib
import json
import math
import os
import subprocess
import sys
import time
import traceback
from collections import Counter

HERE = os.path.dirname(os.path.abspath(__file__))
VERIF = os.path.dirname(HERE)
WORK = os.path.join(VERIF, '.work')
REPO = os.environ.get('BYCYCLE_VERIF_REPO', '/repo')
KNOWN_FILE = os.path.join(VERIF, 'known_findings.json')


class Violation(Exception):
    """The property is violated on this case. clause = stable short id of what failed."""

    def __init__(self, clause, detail=''):
        super().__init__('%s: %s' % (clause, detail))
        self.clause = clause
        self.detail = str(detail)[:2000]


class Discard(Exception):
    """The generated case is outside the property's stated domain (counted, never a violation)."""

    def __init__(self, why):
        super().__init__(why)
        self.why = why


class Part:
    def __init__(self, name, check, strategy=None, enum=None, budget=None, shards=None,
                 time_cap=None, describe=None, exhaustive=False, decode=None, tiers=('quick', 'thorough')):
        self.name = name
        self.check = check
        self.strategy = strategy
        self.enum = enum
        self.decode = decode            # fuzz parts: FuzzedDataProvider -> JSON case
        self.tiers = tiers
        self.kind = 'fuzz' if decode is not None else ('hyp' if strategy is not None else 'enum')
        self.budget = budget or {'quick': 200, 'thorough': 5000}
        self.shards = shards or {'quick': 4, 'thorough': 16}
        self.time_cap = time_cap or {'quick': 150, 'thorough': 3000}
        self.describe = describe
        self.exhaustive = exhaustive


def case_key(case):
    return json.dumps(case, sort_keys=True, default=_json_default)


def _json_default(o):
    import numpy as np
    if isinstance(o, np.generic):
        return o.item()
    if isinstance(o, np.ndarray):
        return o.tolist()
    if isinstance(o, tuple):
        return list(o)
    raise TypeError(type(o))


def case_hash(case):
    return hashlib.blake2b(case_key(case).encode(), digest_size=8).hexdigest()


def compact(obj, maxlen=24):
    """Human-readable compaction of a case for the evidence samples."""
    if isinstance(obj, dict):
        return {k: compact(v, maxlen) for k, v in obj.items()}
    if isinstance(obj, (list, tuple)):
        if len(obj) > maxlen and all(isinstance(x, (int, float, bool)) for x in obj):
            return {'len': len(obj), 'head': list(obj[:8]), 'tail': list(obj[-4:])}
        if len(obj) > maxlen:
            return [compact(x, maxlen) for x in obj[:6]] + ['... %d more' % (len(obj) - 6)]
        return [compact(x, maxlen) for x in obj]
    if isinstance(obj, float):
        return float('%.6g' % obj) if math.isfinite(obj) else repr(obj)
    return obj


class Recorder:
    """Counts what the generator produced and what was non-trivial."""

    def __init__(self, part_name='', distinct_by_construction=False):
        self.part = part_name
        self.evaluations = 0
        self.discarded = Counter()
        self.labels = Counter()
        self.known_hits = Counter()
        self.nontrivial_hashes = set()
        self.nontrivial_count = 0
        self.samples = []
        self.by_construction = distinct_by_construction
        self._case = None
        self._nt = False

    # --- used by the harness
    def begin(self, case):
        self._case = case
        self._nt = False
        self.evaluations += 1

    # --- used by check functions
    def label(self, *names):
        for n in names:
            self.labels[str(n)] += 1

    def nontrivial(self, flag=True, note=None):
        """Declare the current case non-trivial by the property's stated rule."""
        if not flag or self._nt:
            return
        self._nt = True
        if self.by_construction:
            self.nontrivial_count += 1
        else:
            h = case_hash(self._case)
            if h in self.nontrivial_hashes:
                return
            self.nontrivial_hashes.add(h)
        self._nt_seen = getattr(self, '_nt_seen', 0) + 1
        if self._nt_seen in (1, 12, 60):        # not only the generator's first (simplest) examples
            s = {'part': self.part, 'case': compact(self._case)}
            if note is not None:
                s['note'] = compact(note)
            self.samples.append(s)

    def dump(self):
        return {
            'evaluations': self.evaluations,
            'discarded': dict(self.discarded),
            'labels': dict(self.labels),
            'known_hits': dict(self.known_hits),
            'nontrivial_hashes': sorted(self.nontrivial_hashes),
            'nontrivial_count': self.nontrivial_count,
            'samples': self.samples,
        }


# ---------------------------------------------------------------------------------------------
# classification of exceptions escaping a check function

def innermost_repo_frame(tb):
    """(file:function) of the innermost traceback frame that lies in the code under test."""
    site = None
    for fr in traceback.extract_tb(tb):
        fn = fr.filename.replace('\\', '/')
        if '/bycycle/' in fn and '/tests/' not in fn and not fn.startswith(VERIF):
            site = '%s:%s' % (fn.split('/bycycle/', 1)[1], fr.name)
    return site


def guarded(fn, *args, **kwargs):
    """Call the code under test; any exception becomes Violation('raises:<Type>@site')."""
    try:
        return fn(*args, **kwargs)
    except (Violation, Discard):
        raise
    except Exception as exc:  # noqa
        site = innermost_repo_frame(exc.__traceback__) or getattr(fn, '__name__', '?')
        raise Violation('raises:%s@%s' % (type(exc).__name__, site),
                        '%s: %s' % (type(exc).__name__, str(exc)[:300]))


class CallTimeout(Exception):
    pass


def with_timeout(fn, seconds=30):
    """Run fn() under a SIGALRM watchdog (main thread only). A call that does not come back is *inconclusive*:
    it raises Discard, never a violation. Needed because CPython's multiprocessing.Pool.terminate() occasionally
    deadlocks when a pool is torn down by an exception (about 1 % of the rejected group calls here)."""
    import signal

    def on_alarm(signum, frame):
        raise CallTimeout()
    old = signal.signal(signal.SIGALRM, on_alarm)
    signal.alarm(int(seconds))
    try:
        return fn()
    except CallTimeout:
        raise Discard('call did not return within %ds (inconclusive; CPython Pool.terminate race)' % seconds)
    finally:
        signal.alarm(0)
        signal.signal(signal.SIGALRM, old)


# ---------------------------------------------------------------------------------------------
# known findings

def load_known(prop_id):
    if not os.path.exists(KNOWN_FILE):
        return []
    with open(KNOWN_FILE) as fh:
        data = json.load(fh)
    return [f for f in data.get('findings', [])
            if f.get('property') == prop_id and f.get('status') == 'known']


def match_known(known, part, clause, detail):
    import fnmatch
    for k in known:
        if k.get('part') not in (None, part):
            continue
        if not fnmatch.fnmatchcase(clause, k['clause']):
            continue
        if k.get('detail_contains') and k['detail_contains'] not in detail:
            continue
        return k
    return None


# ---------------------------------------------------------------------------------------------
# shard execution

def derive_seed(seed, prop_id, part, shard, attempt=0):
    h = hashlib.sha256(('%d|%s|%s|%d|%d' % (seed, prop_id, part, shard, attempt)).encode())
    return int.from_bytes(h.digest()[:4], 'big')


class _ShardState:
    def __init__(self):
        self.violations = []
        self.excluded = set()
        self.fatal = None
        self.skipped_after_budget = 0
        self.stopped_early = False


def _run_one(part, case, rec, known, st, raise_unknown):
    """Execute check on one case. Returns None or the unknown (clause, detail)."""
    rec.begin(case)
    try:
        part.check(case, rec)
        return None
    except Discard as d:
        rec.discarded[d.why] += 1
        return None
    except Violation as v:
        clause, detail = v.clause, v.detail
    except Exception as exc:  # noqa
        site = innermost_repo_frame(exc.__traceback__)
        if site is None:
            st.fatal = traceback.format_exc()
            raise
        clause = 'raises:%s@%s' % (type(exc).__name__, site)
        detail = '%s: %s' % (type(exc).__name__, str(exc)[:300])
    k = match_known(known, part.name, clause, detail)
    if k is not None:
        rec.known_hits[k['clause']] += 1
        return None
    if clause in st.excluded:
        rec.labels['excluded-bucket:' + clause] += 1
        return None
    return clause, detail


def run_shard(mod, part, tier, seed, shard, nshards):
    known = load_known(mod.ID)
    st = _ShardState()
    rec = Recorder(part.name, distinct_by_construction=(part.kind == 'enum'))
    t0 = time.time()
    cap = part.time_cap[tier]
    if part.kind == 'fuzz':
        return _run_fuzz(mod, part, tier, seed, shard, nshards, rec, known, st, t0, cap)
    if part.kind == 'enum':
        for case in part.enum(tier, shard, nshards):
            if time.time() - t0 > cap:
                st.stopped_early = True
                break
            try:
                res = _run_one(part, case, rec, known, st, False)
            except Exception:
                if st.fatal:
                    break
                raise
            if res is not None:
                st.violations.append({'clause': res[0], 'detail': res[1], 'case': case})
                st.excluded.add(res[0])
                if len(st.violations) >= 5:
                    break
    else:
        _run_hyp(mod, part, tier, seed, shard, nshards, rec, known, st, t0, cap)
    out = rec.dump()
    out.update({'part': part.name, 'shard': shard, 'violations': st.violations,
                'fatal': st.fatal, 'stopped_early': st.stopped_early,
                'skipped_after_budget': st.skipped_after_budget,
                'wall_s': time.time() - t0})
    return out


def _shard_result(part, shard, rec, st, t0):
    out = rec.dump()
    out.update({'part': part.name, 'shard': shard, 'violations': st.violations, 'fatal': st.fatal,
                'stopped_early': st.stopped_early, 'skipped_after_budget': st.skipped_after_budget,
                'wall_s': time.time() - t0})
    return out


def _run_fuzz(mod, part, tier, seed, shard, nshards, rec, known, st, t0, cap):
    """Coverage-guided fuzzing of the same check body with atheris / libFuzzer (empty corpus, -runs=N, -seed=derived).

    libFuzzer never returns from Fuzz(); the shard result is therefore written from inside the target (every 500
    executions, at the last execution and on a violation) to the path given in BYCYCLE_VERIF_FUZZ_OUT.
    """
    out_path = os.environ.get('BYCYCLE_VERIF_FUZZ_OUT')
    rec.by_construction = False
    try:
        sys.path.insert(0, os.path.join(VERIF, '.deps'))
        import atheris
    except Exception as exc:  # noqa
        rec.labels['atheris-unavailable:%s' % type(exc).__name__] += 1
        st.stopped_early = True
        return _shard_result(part, shard, rec, st, t0)
    runs = max(1, int(math.ceil(part.budget[tier] / float(nshards))))
    corpus = (out_path or os.path.join(WORK, 'fuzz-%d' % os.getpid())) + '.corpus'
    os.makedirs(corpus, exist_ok=True)
    state = {'n': 0}

    def dump():
        if out_path:
            with open(out_path + '.tmp', 'w') as fh:
                json.dump(_shard_result(part, shard, rec, st, t0), fh, default=_json_default)
            os.replace(out_path + '.tmp', out_path)

    def target(data):
        state['n'] += 1
        fdp = atheris.FuzzedDataProvider(data)
        try:
            case = part.decode(fdp)
        except Exception:  # noqa - undecodable input
            case = None
        if case is not None and time.time() - t0 <= cap:
            try:
                res = _run_one(part, case, rec, known, st, False)
            except Exception:
                dump()
                os._exit(0)
            if res is not None:
                st.violations.append({'clause': res[0], 'detail': res[1], 'case': case})
                dump()
                os._exit(0)
        elif case is not None:
            st.stopped_early = True
        if state['n'] % 500 == 0 or state['n'] >= runs:
            dump()

    import shutil
    dump()
    argv = [sys.argv[0], corpus, '-runs=%d' % runs, '-seed=%d' % (derive_seed(seed, mod.ID, part.name, shard) or 1),
            '-max_len=256', '-print_final_stats=0', '-verbosity=0']
    atheris.Setup(argv, target)
    try:
        atheris.Fuzz()
    finally:
        shutil.rmtree(corpus, ignore_errors=True)
    return _shard_result(part, shard, rec, st, t0)


def _bind(body, cur):
    # fresh closure per attempt (Hypothesis refuses functions with default arguments)
    def test_case(case):
        return body(case)
    return test_case


def _run_hyp(mod, part, tier, seed, shard, nshards, rec, known, st, t0, cap):
    import hypothesis
    from hypothesis import given, settings, HealthCheck, Phase

    total = max(1, int(math.ceil(part.budget[tier] / float(nshards))))
    shrink_cap = 25 if tier == 'quick' else 120
    attempt = 0
    remaining = total
    while remaining > 0 and attempt < 3:
        cur = {'fail': None, 'fail_key': None, 't_fail': None, 'n': 0}

        def body(case):
            if st.fatal:
                return
            now = time.time()
            if cur['fail'] is None and now - t0 > cap:
                st.skipped_after_budget += 1
                st.stopped_early = True
                return
            if cur['fail'] is not None and now - cur['t_fail'] > shrink_cap:
                # bounded shrinking: only the best failing case is still executed for real
                if case_key(case) != cur['fail_key']:
                    return
            cur['n'] += 1
            res = _run_one(part, case, rec, known, st, True)
            if res is not None:
                if cur['fail'] is None:
                    cur['t_fail'] = now
                    cur['clause'] = res[0]
                if res[0] != cur.get('clause'):
                    # a different bucket met while shrinking: not a shrink of this failure
                    return
                cur['fail'] = {'clause': res[0], 'detail': res[1], 'case': case}
                cur['fail_key'] = case_key(case)
                raise AssertionError(res[0])

        test = given(part.strategy(tier))(_bind(body, cur))
        test = settings(max_examples=remaining, database=None, deadline=None, derandomize=False,
                        report_multiple_bugs=False, suppress_health_check=list(HealthCheck),
                        phases=[Phase.generate, Phase.shrink])(test)
        test = hypothesis.seed(derive_seed(seed, mod.ID, part.name, shard, attempt))(test)
        try:
            test()
        except Exception:  # noqa
            if st.fatal:
                return
            if cur['fail'] is None:
                st.fatal = traceback.format_exc()
                return
            st.violations.append(cur['fail'])
            st.excluded.add(cur['fail']['clause'])
        remaining -= max(cur['n'], 1)
        if cur['fail'] is None:
            break
        attempt += 1


# ---------------------------------------------------------------------------------------------
# orchestration

def _shard_cmd(prop_id, part, tier, seed, shard, nshards, out):
    return [sys.executable, os.path.join(HERE, 'run.py'), prop_id, '--tier', tier,
            '--_shard', '%s:%d:%d' % (part, shard, nshards), '--_out', out, '--_seed', str(seed)]


def _rm(path):
    try:
        os.remove(path)
    except OSError:
        pass


def run_regressions(mod, known):
    """Seconds-long replay tier: saved minimal cases of earlier findings (fixed defects, seeded changes).

    Returns ({(part, clause): path}, n_run, errors); the saved file itself is the replay.
    """
    import glob
    seen, errors, n = {}, [], 0
    for path in sorted(glob.glob(os.path.join(VERIF, 'regress', '%s-*.json' % mod.ID))):
        with open(path) as fh:
            data = json.load(fh)
        part = next((p for p in mod.PARTS if p.name == data['part']), None)
        if part is None:
            errors.append('regression file %s names unknown part %s' % (path, data['part']))
            continue
        st = _ShardState()
        rec = Recorder(part.name)
        n += 1
        try:
            res = _run_one(part, data['case'], rec, known, st, False)
        except Exception:
            errors.append('regression %s: %s' % (path, st.fatal or traceback.format_exc()))
            continue
        if res is not None:
            seen.setdefault((part.name, res[0]), path)
    return seen, n, errors


def run_property(mod, tier, seed, only_parts=None, max_procs=16):
    os.makedirs(WORK, exist_ok=True)
    t0 = time.time()
    known = load_known(mod.ID)
    jobs = []
    for part in mod.PARTS:
        if only_parts and part.name not in only_parts:
            continue
        if tier not in part.tiers:
            continue
        n = part.shards[tier]
        for k in range(n):
            out = os.path.join(WORK, '%s-%s-%s-%d-%d.json' % (mod.ID, part.name, tier, k, os.getpid()))
            jobs.append((part, k, n, out))
    env = dict(os.environ)
    env['PYTHONHASHSEED'] = '0'
    env['BYCYCLE_VERIF'] = '1'
    env.setdefault('MPLBACKEND', 'Agg')
    env.setdefault('OMP_NUM_THREADS', '1')
    env.setdefault('OPENBLAS_NUM_THREADS', '1')
    running, results, errors = [], [], []
    queue = list(jobs)
    while queue or running:
        while queue and len(running) < max_procs:
            part, k, n, out = queue.pop(0)
            logf = open(out + '.log', 'wb')
            env['BYCYCLE_VERIF_FUZZ_OUT'] = out
            p = subprocess.Popen(_shard_cmd(mod.ID, part.name, tier, seed, k, n, out), env=env,
                                 stdout=logf, stderr=subprocess.STDOUT)
            logf.close()
            running.append((p, part, k, out, time.time()))
        time.sleep(0.05)
        still = []
        for p, part, k, out, started in running:
            if p.poll() is None:
                if time.time() - started > part.time_cap[tier] * 1.5 + 120:
                    p.kill()
                    p.wait()
                    _rm(out + '.log')
                    errors.append('shard %s:%d killed by the watchdog after %.0fs' % (part.name, k, time.time() - started))
                    continue
                still.append((p, part, k, out, started))
                continue
            try:
                with open(out + '.log', 'rb') as fh:
                    log = fh.read()[-6000:].decode(errors='replace')
            except OSError:
                log = ''
            _rm(out + '.log')
            if os.path.isdir(out + '.corpus'):
                import shutil
                shutil.rmtree(out + '.corpus', ignore_errors=True)
            if p.returncode != 0 or not os.path.exists(out):
                errors.append('shard %s:%d exited %s\n%s' % (part.name, k, p.returncode, log[-3000:]))
            else:
                with open(out) as fh:
                    results.append(json.load(fh))
                os.remove(out)
        running = still
    reg_seen, reg_n, reg_err = ({}, 0, []) if only_parts else run_regressions(mod, known)
    errors.extend(reg_err)
    wall = time.time() - t0
    evidence, seen, errors, known = aggregate(mod, tier, seed, results, errors, known, wall)
    evidence['coverage']['regression_replays'] = reg_n
    for key, path in reg_seen.items():
        seen.setdefault(key, path)
    evidence['violations'] = len(seen)
    return evidence, seen, errors, known


def aggregate(mod, tier, seed, results, errors, known, wall):
    parts = {}
    hashes = set()
    nt_count = 0
    samples = []
    violations = []
    known_hits = Counter()
    for r in results:
        if r.get('fatal'):
            errors.append('part %s shard %d: %s' % (r['part'], r['shard'], r['fatal']))
        p = parts.setdefault(r['part'], {'evaluations': 0, 'nontrivial': 0, 'discarded': Counter(),
                                         'labels': Counter(), 'stopped_early': False,
                                         'skipped_after_budget': 0, '_h': set()})
        p['evaluations'] += r['evaluations']
        p['discarded'].update(r['discarded'])
        p['labels'].update(r['labels'])
        p['stopped_early'] = p['stopped_early'] or r['stopped_early']
        p['skipped_after_budget'] += r['skipped_after_budget']
        p['_h'].update(r['nontrivial_hashes'])
        p['nontrivial'] += r['nontrivial_count']
        nt_count += r['nontrivial_count']
        hashes.update(r['part'] + ':' + h for h in r['nontrivial_hashes'])
        known_hits.update(r['known_hits'])
        if len(samples) < 8:
            samples.extend(r['samples'][:2])
        for v in r['violations']:
            v = dict(v)
            v['part'] = r['part']
            violations.append(v)
    for p in parts.values():
        p['nontrivial'] += len(p.pop('_h'))
        p['discarded'] = dict(p['discarded'])
        p['labels'] = dict(sorted(p['labels'].items()))
    evaluations = sum(p['evaluations'] for p in parts.values())
    exhaustive_parts = [pt.name for pt in mod.PARTS if pt.exhaustive and pt.name in parts
                        and not parts[pt.name]['stopped_early']]
    # one replay file per distinct (part, clause)
    seen = {}
    for v in violations:
        key = (v['part'], v['clause'])
        if key in seen:
            continue
        tag = hashlib.sha1(('%s|%s' % key).encode()).hexdigest()[:10]
        path = os.path.join(os.environ.get('VERIF_REPLAY_DIR') or os.path.join(VERIF, 'replays'), '%s-%s-%s.json' % (mod.ID, v['part'], tag))
        os.makedirs(os.path.dirname(path), exist_ok=True)
        with open(path, 'w') as fh:
            json.dump({'property': mod.ID, 'part': v['part'], 'clause': v['clause'],
                       'detail': v['detail'], 'seed': seed, 'tier': tier, 'case': v['case']},
                      fh, default=_json_default)
        seen[key] = path
    evidence = {
        'property_id': mod.ID,
        'tier': tier,
        'seed': int(seed),
        'level': 'exploration',
        'coverage': {
            'evaluations': int(evaluations),
            'distinct_nontrivial': int(len(hashes) + nt_count),
            'rule': mod.RULE,
            'samples': samples[:8],
            'exhaustive': bool(exhaustive_parts) and len(exhaustive_parts) == len(parts),
            'exhaustive_parts': exhaustive_parts,
            'parts': parts,
            'known_finding_hits': dict(known_hits),
            'discarded_total': int(sum(sum(p['discarded'].values()) for p in parts.values())),
            'trusted_base': getattr(mod, 'TRUSTED', []),
            'repo': REPO,
        },
        'assumptions': list(getattr(mod, 'ASSUMPTIONS', [])),
        'wall_s': round(wall, 3),
        'violations': len(seen),
    }
    return evidence, seen, errors, known


def finish(mod, evidence, seen, errors, known, write_evidence=True):
    """Print the verdict lines, write the evidence file, return the exit code."""
    if write_evidence:
        path = os.path.join(VERIF, 'evidence', '%s.json' % mod.ID)
        os.makedirs(os.path.dirname(path), exist_ok=True)
        with open(path, 'w') as fh:
            json.dump(evidence, fh, indent=1, default=_json_default)
    cov = evidence['coverage']
    print('%s tier=%s seed=%d evaluations=%d nontrivial=%d discarded=%d wall=%.1fs' % (
        mod.ID, evidence['tier'], evidence['seed'], cov['evaluations'], cov['distinct_nontrivial'],
        cov['discarded_total'], evidence['wall_s']))
    for name, p in cov['parts'].items():
        print('  part %-22s eval=%-8d nontrivial=%-8d discarded=%d%s' % (
            name, p['evaluations'], p['nontrivial'], sum(p['discarded'].values()),
            ' (stopped early: time budget)' if p['stopped_early'] else ''))
    if os.environ.get('VERIF_VERBOSE'):
        for name, p in cov['parts'].items():
            ev = max(p['evaluations'], 1)
            print('  labels[%s]: ' % name + ', '.join('%s=%.1f%%' % (k, 100.0 * v / ev) for k, v in p['labels'].items()))
            if p['discarded']:
                print('  discarded[%s]: %s' % (name, p['discarded']))
    for k in known:
        hits = cov['known_finding_hits'].get(k['clause'], 0)
        print('KNOWN-FINDING: property=%s %s [clause=%s hits=%d]' % (mod.ID, k['what'], k['clause'], hits))
    if errors:
        for e in errors:
            print('HARNESS-ERROR: ' + e.replace('\n', '\n    '))
        return 2
    if seen:
        for (part, clause), path in seen.items():
            print('  violated clause %s (part %s)' % (clause, part))
            print('VIOLATION property=%s replay=%s' % (mod.ID, path))
        return 1
    if cov['distinct_nontrivial'] < 2:
        print('HARNESS-ERROR: fewer than 2 non-trivial cases were generated')
        return 2
    print('OK property=%s held on everything explored' % mod.ID)
    return 0


def replay(mod, path):
    with open(path) as fh:
        data = json.load(fh)
    part = next(p for p in mod.PARTS if p.name == data['part'])
    known = load_known(mod.ID)
    st = _ShardState()
    rec = Recorder(part.name)
    try:
        res = _run_one(part, data['case'], rec, known, st, False)
    except Exception:
        print('HARNESS-ERROR: ' + (st.fatal or traceback.format_exc()))
        return 2
    if res is None:
        print('replay: property %s holds on %s' % (mod.ID, path))
        return 0
    print('  violated clause %s: %s' % res)
    print('VIOLATION property=%s replay=%s' % (mod.ID, path))
    return 1
