"""Shared helpers for the properties that analyse a generated signal through compute_features."""
import warnings

import numpy as np

import gen
import ref
from harness import Violation, Discard, guarded
from bycycle.features import compute_features

SHAPE_COLS = ['period', 'time_peak', 'time_trough', 'volt_peak', 'volt_trough', 'time_decay', 'time_rise',
              'volt_decay', 'volt_rise', 'volt_amp', 'time_rdsym', 'time_ptsym', 'band_amp']
BURST_COLS = {'cycles': ['amp_fraction', 'amp_consistency', 'period_consistency', 'monotonicity'],
              'amp': ['burst_fraction']}


def expected_cycles(case, x, min_extrema=3):
    """Reference sample columns; raises Discard when the three-oscillation precondition fails."""
    cols = ref.ref_cycles(x, case['fs'], tuple(case['f_range']), case['center'], case.get('fek'))
    if cols is None:
        raise Discard('fewer than three full oscillations')
    nm = ref.names(case['center'])
    if len(cols[nm['center']]) + 1 < min_extrema:
        raise Discard('fewer than three full oscillations')
    # the band-amplitude column is delegated to neurodsp's amp_by_time (3-cycle filter): where that trusted call rejects the
    # band for this sampling rate ("Invalid transition band"), compute_features has no table to return either
    ref.ref_band_amp(x, case['fs'], tuple(case['f_range']))
    return cols


def analyse(case, x=None, **override):
    """compute_features on fresh copies of everything; exceptions become violations."""
    if x is None:
        x = gen.render_signal(case['sig'])
    sig, fs, fr = gen.call_args(case, x)
    with warnings.catch_warnings():
        warnings.simplefilter('ignore')
        df = guarded(compute_features, sig, fs, fr, **gen.cf_kwargs(case, **override))
    if not np.array_equal(sig, x):
        raise Violation('signal-modified', 'compute_features changed the signal array it was given')
    return df


def sample_cols(df):
    return [c for c in df.columns if c.startswith('sample_')]


def resolved_min_cycles(case):
    bk, th = case.get('bk') or {}, case.get('th') or {}
    if 'min_n_cycles' in bk:
        return bk['min_n_cycles']
    if 'min_n_cycles' in th:
        return th['min_n_cycles']
    return 3


def trusted_burst_mask(case, x):
    """Sample-wise mask of the trusted (neurodsp) dual-threshold detector for an 'amp' case.

    The trusted detector itself raises on some masks (e.g. TypeError in neurodsp's _rmv_short_periods when
    every sample is above the low threshold); there the oracle is undefined and the case is discarded.
    """
    bk = case.get('bk') or {}
    try:
        with warnings.catch_warnings():
            warnings.simplefilter('ignore')
            return ref.ref_burst_mask(x, case['fs'], case['f_range'], bk.get('amp_threshes', (1, 2)),
                                      resolved_min_cycles(case), bk.get('min_burst_duration'),
                                      bk.get('filter_kwargs'))
    except Exception as exc:  # noqa
        raise Discard('trusted dual-threshold detector raises %s on this input' % type(exc).__name__)
