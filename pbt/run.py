#!/venv/bin/python
"""Entry point:  run.py <Cxx> [--tier quick|thorough] [--replay FILE] [--parts a,b]

exit 0  property held on everything explored (KNOWN-FINDING lines may be printed)
exit 1  'VIOLATION property=<id> replay=<path>' printed
exit 2  harness error (never a VIOLATION line)
"""
import argparse
import importlib
import json
import os
import sys
import warnings

HERE = os.path.dirname(os.path.abspath(__file__))
sys.path.insert(0, HERE)
REPO = os.environ.get('BYCYCLE_VERIF_REPO', '/repo')
sys.path.insert(0, REPO)
os.environ.setdefault('MPLBACKEND', 'Agg')
os.environ.setdefault('BYCYCLE_VERIF', '1')
os.environ.setdefault('OMP_NUM_THREADS', '1')
os.environ.setdefault('OPENBLAS_NUM_THREADS', '1')
warnings.simplefilter('ignore')


def main():
    ap = argparse.ArgumentParser()
    ap.add_argument('prop')
    ap.add_argument('--tier', default=None, choices=['quick', 'thorough'])
    ap.add_argument('--replay', default=None)
    ap.add_argument('--parts', default=None)
    ap.add_argument('--no-evidence', action='store_true')
    ap.add_argument('--_shard', default=None)
    ap.add_argument('--_out', default=None)
    ap.add_argument('--_seed', default=None)
    a = ap.parse_args()

    tier = a.tier or os.environ.get('VERIF_TIER') or 'quick'
    if tier not in ('quick', 'thorough'):
        tier = 'quick'
    try:
        seed = int(a._seed if a._seed is not None else os.environ.get('VERIF_SEED', '1'))
    except ValueError:
        seed = 1

    import harness
    try:
        if a._shard and a._shard.startswith('fuzz-'):
            # coverage-guided part: the code under test has to be imported under atheris' instrumentation
            try:
                sys.path.insert(0, os.path.join(os.path.dirname(HERE), '.deps'))
                import atheris
                with atheris.instrument_imports(include=['bycycle']):
                    import bycycle
                    mod = importlib.import_module('props.' + a.prop.lower())
            except ImportError:
                import bycycle
                mod = importlib.import_module('props.' + a.prop.lower())
        else:
            import bycycle
            mod = importlib.import_module('props.' + a.prop.lower())
        if not os.path.abspath(bycycle.__file__).startswith(os.path.abspath(REPO) + os.sep):
            print('HARNESS-ERROR: bycycle imported from %s, expected %s' % (bycycle.__file__, REPO))
            return 2
    except Exception:
        import traceback
        print('HARNESS-ERROR: cannot import code under test or property module\n' + traceback.format_exc())
        return 2

    if a._shard:
        pname, k, n = a._shard.rsplit(':', 2)
        part = next(p for p in mod.PARTS if p.name == pname)
        res = harness.run_shard(mod, part, tier, seed, int(k), int(n))
        if part.kind == 'fuzz' and os.path.exists(a._out):
            return 0                      # written from inside the fuzz target
        with open(a._out, 'w') as fh:
            json.dump(res, fh, default=harness._json_default)
        return 0

    if a.replay:
        return harness.replay(mod, a.replay)

    only = a.parts.split(',') if a.parts else None
    evidence, seen, errors, known = harness.run_property(mod, tier, seed, only_parts=only)
    return harness.finish(mod, evidence, seen, errors, known,
                          write_evidence=not (a.no_evidence or only))


if __name__ == '__main__':
    sys.exit(main())
