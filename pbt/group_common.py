"""Helpers for the group properties (C11, C12): tiny distinct signals, per-row options, worker-delay injection."""
import functools
import hashlib
import time
import warnings

import numpy as np
from hypothesis import strategies as st

import gen

import bycycle.features.features as _ff
import bycycle.features as _f
import bycycle.group.features as _gf

ORIGINAL = _ff.compute_features
DELAYS = {}          # content hash of a signal -> seconds; inherited by forked workers


def _key(sig):
    return hashlib.blake2b(np.ascontiguousarray(sig).tobytes(), digest_size=8).hexdigest()


@functools.wraps(ORIGINAL)
def _delayed(sig, *args, **kwargs):
    d = DELAYS.get(_key(sig))
    if d:
        time.sleep(d)
    return ORIGINAL(sig, *args, **kwargs)


def install_delays(sig_delay_pairs):
    """Rebind compute_features (same qualified name, so pickling by reference still resolves in forked workers)."""
    DELAYS.clear()
    for sig, d in sig_delay_pairs:
        if d:
            DELAYS[_key(sig)] = d
    for m in (_ff, _f, _gf):
        m.compute_features = _delayed


def remove_delays():
    DELAYS.clear()
    for m in (_ff, _f, _gf):
        m.compute_features = ORIGINAL


def isolated(fn, *args, **kwargs):
    """Run fn in a freshly forked child and return its result (exceptions are re-raised in the parent).

    The shard process itself then never executes the analysis code, so per-process state of the code under test
    (module-level caches, memoisation) cannot poison the reference in the same way as it poisons a worker that
    handles several rows - an in-process differential is blind to that.
    """
    import os
    import pickle
    r, w = os.pipe()
    pid = os.fork()
    if pid == 0:
        try:
            os.close(r)
            try:
                payload = ('ok', fn(*args, **kwargs))
            except BaseException as exc:  # noqa
                payload = ('err', '%s: %s' % (type(exc).__name__, str(exc)[:200]))
            data = pickle.dumps(payload)
            with os.fdopen(w, 'wb') as fh:
                fh.write(data)
        finally:
            os._exit(0)
    os.close(w)
    with os.fdopen(r, 'rb') as fh:
        data = fh.read()
    os.waitpid(pid, 0)
    kind, val = pickle.loads(data)
    if kind == 'err':
        raise RuntimeError(val)
    return val


def reference(sig, fs, f_range, kw, return_samples=True):
    kw = gen.copy_json_kwargs(kw or {})
    kw.pop('return_samples', None)
    with warnings.catch_warnings():
        warnings.simplefilter('ignore')
        return ORIGINAL(np.array(sig, copy=True), fs, tuple(f_range), return_samples=return_samples, **kw)


@st.composite
def st_group_base(draw, max_len=700):
    """band + signal length for a group case (short signals, >= 8 periods)"""
    band = draw(gen.st_band(wide=False))      # group checks are about positions and histories, not about filter regimes
    p_lo = band['fs'] / band['f_range'][0]
    n_min = int(max(gen.filt_len_of(band, None) + 8, 9 * p_lo))
    n = draw(st.integers(n_min, max(n_min + 10, min(max_len, int(16 * p_lo)))))
    return band, n


@st.composite
def st_row_signal(draw, band, n, k):
    f_lo, f_hi = band['f_range']
    return {'kind': 'recipe', 'n': n, 'fs': band['fs'],
            'comps': [{'type': draw(st.sampled_from(['asym', 'sine', 'bursty'])), 'f': draw(gen._f(f_lo, f_hi)), 'ph': draw(gen._f(0, 1)),
                       'amp': 1.0, 'rdsym': draw(gen._f(0.25, 0.75)), 'first_on': True, 'segs': [4.0, 2.0, 5.0], 'floor': 0.1},
                      {'type': 'white', 'seed': 1000 * draw(st.integers(0, 10 ** 5)) + k, 'amp': draw(st.sampled_from([0.05, 0.2, 0.5]))}],
            'post': []}


@st.composite
def st_options(draw, band, allow_amp=True, center=None, method=None, sparse=False):
    """one compute_features option set (as JSON)"""
    center_fixed = center is not None
    method = method or draw(st.sampled_from(['cycles', 'cycles', 'amp'] if allow_amp else ['cycles']))
    center = center or draw(st.sampled_from(['peak', 'trough']))
    kw = {'center_extrema': center, 'burst_method': method}
    if method == 'cycles':
        kw['threshold_kwargs'] = {'amp_fraction_threshold': draw(st.sampled_from([0.0, 0.2])),
                                  'amp_consistency_threshold': draw(st.sampled_from([0.2, 0.4, 0.6])),
                                  'period_consistency_threshold': draw(st.sampled_from([0.3, 0.5, 0.7])),
                                  'monotonicity_threshold': draw(st.sampled_from([0.3, 0.5, 0.7])),
                                  'min_n_cycles': draw(st.integers(1, 3))}
    else:
        kw['threshold_kwargs'] = {'burst_fraction_threshold': draw(st.sampled_from([0.25, 0.5, 0.9, 1])),
                                  'min_n_cycles': draw(st.integers(1, 3))}
        if draw(st.booleans()):
            kw['burst_kwargs'] = {'amp_threshes': draw(st.sampled_from([[0.5, 1], [1, 1.5], [0.8, 1.2]]))}
        if sparse and draw(st.integers(0, 2)) == 0:
            # the minimum cycle count given with the burst options (it wins over the thresholds' value, C07)
            kw.setdefault('burst_kwargs', {})['min_n_cycles'] = draw(st.integers(0, 4))
            if draw(st.booleans()):
                del kw['threshold_kwargs']['min_n_cycles']
    if draw(st.integers(0, 3)) == 0:
        kw['find_extrema_kwargs'] = {'filter_kwargs': {'n_cycles': draw(st.sampled_from([2, 3, 4]))}, 'boundary': draw(st.sampled_from([0, 2]))}
        if draw(st.booleans()):
            kw['find_extrema_kwargs']['pad'] = False
    if sparse and draw(st.integers(0, 3)) == 0:
        # partially specified option sets: every key is optional and falls back to the documented default
        for key in draw(st.lists(st.sampled_from(['center_extrema', 'burst_method', 'threshold_kwargs', 'find_extrema_kwargs']), min_size=1, max_size=4, unique=True)):
            if key == 'center_extrema' and center_fixed:
                continue
            if key == 'burst_method' and kw.get('burst_method') == 'amp':
                continue
            kw.pop(key, None)
    return kw


def materialise(kw):
    """JSON option set -> what the caller hands to bycycle (tuples for amp_threshes)"""
    kw = gen.copy_json(kw) if kw is not None else None
    if kw and 'burst_kwargs' in kw and 'amp_threshes' in kw['burst_kwargs']:
        kw['burst_kwargs']['amp_threshes'] = tuple(kw['burst_kwargs']['amp_threshes'])
    return kw


class start_method:
    """with start_method('spawn'): ... - the caller's multiprocessing start method for the duration of the block (spawn is the
    default on macOS / Windows, forkserver from Python 3.14); 'fork' (this platform's default) is restored afterwards"""

    def __init__(self, method):
        self.method = method

    def __enter__(self):
        import multiprocessing
        if self.method and self.method != 'fork':
            multiprocessing.set_start_method(self.method, force=True)
        return self

    def __exit__(self, *exc):
        import multiprocessing
        if self.method and self.method != 'fork':
            multiprocessing.set_start_method('fork', force=True)
        return False
