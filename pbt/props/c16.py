"""C16 - Edge recomputation touches only burst edges and only grows bursts."""
import numpy as np
import pandas as pd
from hypothesis import strategies as st

import gen
import ref
import pipeline
from harness import Part, Violation, Discard, guarded
from bycycle.burst import recompute_edges

ID = 'C16'
TITLE = 'Edge recomputation touches only burst edges and only grows bursts'
REGISTER = True
TECHNIQUE = ('Hypothesis property-based testing of recompute_edges on tables from generated signals (consistency detection, both '
             'centrings) and on synthetic tables with drawn burst layouts: frame condition (only edge rows / only the two consistency '
             'columns and is_burst may change, input untouched), edge values against a reference one-sided consistency, labels '
             'against the reference threshold-and-run rule on the edited table, and burst growth under unchanged thresholds')
LEVEL_TEXT = ('Generated-input search: 700 pipeline tables + 4k synthetic tables (quick), 30k + 200k (thorough), thresholds reduced by '
              'r in {0, .05, .1, .3} or arbitrary. Exact comparison. Sampling, not exhaustive.')
RULE = ('pipeline: bursty / noisy signals through compute_features(burst_method=cycles, return_samples=True), both centrings, lowish '
        'thresholds so that several bursts occur; synthetic: tables of 3..40 rows with volt_rise/volt_decay/period from small grids, '
        'consistency columns computed by the reference, monotonicity/amp_fraction drawn so that burst layouts include single-row gaps, '
        'bursts starting at row 1 and ending at row n-2, non-default (offset) index; then recompute_edges(table, thresholds - r). '
        'Oracle: input bit-unchanged; same index/columns; all columns except amp_consistency, period_consistency, is_burst identical; '
        'those two identical outside edge rows (row before each burst start, row after each burst end); at an edge row the value is the '
        'one-sided consistency looking into the burst (next at a start, last at an end; a row squeezed between two bursts may carry '
        'either); is_burst == threshold-and-run rule on the edited table; with unchanged thresholds old bursts are a subset of new '
        'ones. Non-trivial: >= 1 edge row whose one-sided value differs from its two-sided value and >= 2 bursts. Distinct = case.')
ASSUMPTIONS = ['tables carry sample columns (the centring cannot be recovered otherwise) and were labelled by consistency detection',
               'edge rows whose one-sided amplitude consistency involves a 0/0 pair are undefined by the statement: counted, skipped',
               'thresholds after reduction stay in [0, 1] (out-of-range is C19)']
TRUSTED = ['numpy', 'pandas', 'reference consistency / label functions of ref.py (validated against C05 / C06)']

FEATS = ['amp_fraction', 'amp_consistency', 'period_consistency', 'monotonicity']


def edges_of(lab):
    n = len(lab)
    starts = [i for i in range(n - 1) if not lab[i] and lab[i + 1]]
    ends = [i for i in range(1, n) if not lab[i] and lab[i - 1]]
    return starts, ends


def core(df, th_new, same_thresholds, rec):
    keep = df.copy(deep=True)
    lab0 = df['is_burst'].values.copy()
    n = len(df)
    out = guarded(recompute_edges, df, gen.copy_json(th_new))
    ok, why = ref.frames_equal(df, keep)
    if not ok or not df.index.equals(keep.index):
        raise Violation('input-table-modified', why)
    if out is df:
        raise Violation('returned-the-input-object', '')
    if list(out.columns) != list(keep.columns) or len(out) != n or not out.index.equals(keep.index):
        raise Violation('shape-or-index-changed', 'rows %d -> %d, index equal %s' % (n, len(out), out.index.equals(keep.index)))
    for col in keep.columns:
        if col in ('amp_consistency', 'period_consistency', 'is_burst'):
            continue
        a, b = keep[col].values, out[col].values
        same = ref.same_float(a, b) if a.dtype.kind == 'f' else np.array_equal(a, b)
        if not same:
            raise Violation('other-column-changed:' + col, ref.first_diff(a, b))
    starts, ends = edges_of(lab0)
    E = set(starts) | set(ends)
    one = {}
    for d in ('next', 'last'):
        ac, undef = ref.ref_amp_consistency_table(keep, d)
        one[d] = (ac, undef, ref.ref_period_consistency(keep['period'].values, d))
    differs = 0
    for col, k in (('amp_consistency', 0), ('period_consistency', 2)):
        old, new = keep[col].values.astype(float), out[col].values.astype(float)
        for i in range(n):
            if i not in E:
                if not (old[i] == new[i] or (np.isnan(old[i]) and np.isnan(new[i]))):
                    raise Violation('non-edge-row-changed:' + col, 'row %d: %r -> %r (bursts %s)' % (i, old[i], new[i], lab0.astype(int).tolist()))
                continue
            allowed = []
            if i in starts:
                allowed.append('next')
            if i in ends:
                allowed.append('last')
            if col == 'amp_consistency' and any(one[d][1][i] for d in allowed):
                rec.label('undefined-edge-skipped')
                continue
            want = [one[d][k][i] for d in allowed]
            if not any(w == new[i] or (np.isnan(w) and np.isnan(new[i])) for w in want):
                raise Violation('edge-value:' + col, 'row %d (%s edge): got %r, one-sided value %s, old two-sided %r' % (
                    i, '+'.join(allowed), new[i], want, old[i]))
            if not (old[i] == new[i] or (np.isnan(old[i]) and np.isnan(new[i]))):
                differs += 1
    exp_lab = ref.ref_labels_cycles(out, th_new)
    got_lab = out['is_burst'].values
    if not np.array_equal(got_lab, exp_lab):
        raise Violation('labels-not-rule-on-edited-table', ref.first_diff(got_lab, exp_lab))
    if same_thresholds and np.any(lab0 & ~got_lab):
        raise Violation('burst-shrank-with-unchanged-thresholds', 'old %s new %s' % (lab0.astype(int).tolist(), got_lab.astype(int).tolist()))
    nb = len(starts)
    grown = bool(np.any(got_lab & ~lab0))
    rec.label('bursts:%s' % (nb if nb < 3 else '>=3'), 'edge-values-changed' if differs else 'no-edge-change',
              'grown' if grown else 'not-grown', 'shared-edge-row' if set(starts) & set(ends) else 'no-shared-edge',
              'same-thresholds' if same_thresholds else 'reduced-thresholds')
    rec.nontrivial(differs > 0 and nb >= 2)


def reduced(th, r):
    eff = dict(ref.CYC_DEFAULTS)
    eff.update(th or {})
    return {k: (max(0.0, v - r) if k.endswith('_threshold') else v) for k, v in eff.items()}


def check_pipeline(case, rec):
    x = gen.render_signal(case['sig'])
    pipeline.expected_cycles(case, x)
    df = pipeline.analyse(case, x, return_samples=True)
    rec.label(*gen.case_labels(case))
    if not df['is_burst'].any():
        rec.label('no-bursts')
    th_new = reduced(case.get('th'), case['r'])
    if case['offset_index']:
        df = df.copy()
        df.index = df.index + 7
    core(df, th_new, case['r'] == 0, rec)


def build_synth(case):
    n = len(case['rise'])
    c = case['center']
    d = {'volt_rise': np.array(case['rise'], dtype=float), 'volt_decay': np.array(case['decay'], dtype=float),
         'period': np.array(case['period'], dtype=int)}
    d['volt_amp'] = (d['volt_rise'] + d['volt_decay']) / 2
    nm = ref.names(c)
    pos = np.cumsum(d['period'])
    d[nm['last']] = pos - d['period']
    d[nm['center']] = pos - d['period'] // 2 - 1
    d[nm['next']] = pos
    df = pd.DataFrame(d)
    df['amp_fraction'] = ref.ref_amp_fraction(df['volt_amp'].values)
    df['amp_consistency'] = ref.ref_amp_consistency_table(df, 'both')[0]
    df['period_consistency'] = ref.ref_period_consistency(df['period'].values, 'both')
    df['monotonicity'] = np.array(case['mono'], dtype=float)
    df['is_burst'] = ref.ref_labels_cycles(df, case['th'])
    order = case.get('columns', 'natural')
    if order == 'sorted':
        df = df[sorted(df.columns)]
    elif order == 'reversed':
        df = df[list(df.columns)[::-1]]
    elif order == 'consistency-last':
        cols = [c for c in df.columns if c != 'amp_consistency'] + ['amp_consistency']
        df = df[cols]
    if case['offset_index'] == 'repeated':
        h = (n + 1) // 2
        df.index = pd.Index(list(range(h)) + list(range(n - h)))
    elif case['offset_index']:
        df.index = df.index + case['offset_index']
    return df


def check_synth(case, rec):
    df = build_synth(case)
    rec.label('center:' + case['center'], 'index:offset' if case['offset_index'] else 'index:range', 'columns:' + case.get('columns', 'natural'))
    core(df, reduced(case['th'], case['r']), case['r'] == 0, rec)


@st.composite
def strat_pipeline(draw, tier):
    case = draw(gen.st_analysis_case(methods=('cycles',), bursty=True, thresholds=False))
    case['return_samples'] = True
    case['th'] = {'amp_fraction_threshold': draw(st.sampled_from([0.0, 0.1, 0.3])),
                  'amp_consistency_threshold': draw(st.sampled_from([0.3, 0.5, 0.6, 0.7])),
                  'period_consistency_threshold': draw(st.sampled_from([0.3, 0.5, 0.6, 0.7])),
                  'monotonicity_threshold': draw(st.sampled_from([0.3, 0.5, 0.6, 0.8])),
                  'min_n_cycles': draw(st.sampled_from([1, 2, 3]))}
    case['r'] = draw(st.sampled_from([0, 0, 0.05, 0.1, 0.3]))
    case['offset_index'] = draw(st.integers(0, 5)) == 0
    return case


@st.composite
def strat_synth(draw, tier):
    n = draw(st.integers(3, 40))
    vals = st.sampled_from([2, 4, 5, 5, 6, 6, 7, 8, 8, 12])
    rise = draw(st.lists(vals, min_size=n, max_size=n))
    decay = draw(st.lists(vals, min_size=n, max_size=n))
    if draw(st.integers(0, 6)) == 0:
        i = draw(st.integers(0, n - 1))
        rise[i] = draw(st.sampled_from([0, -1]))
    period = draw(st.lists(st.sampled_from([9, 10, 10, 10, 11, 11, 12, 14, 20]), min_size=n, max_size=n))
    mono = draw(st.lists(st.sampled_from([1.0, 1.0, 1.0, 1.0, 0.9, 0.9, 0.9, 0.5, 0.2]), min_size=n, max_size=n))
    th = {'amp_fraction_threshold': draw(st.sampled_from([0.0, 0.0, 0.2])),
          'amp_consistency_threshold': draw(st.sampled_from([0.4, 0.5, 0.6, 0.7])),
          'period_consistency_threshold': draw(st.sampled_from([0.4, 0.5, 0.7, 0.85])),
          'monotonicity_threshold': draw(st.sampled_from([0.4, 0.8])),
          'min_n_cycles': draw(st.sampled_from([1, 1, 2, 3]))}
    return {'rise': rise, 'decay': decay, 'period': period, 'mono': mono, 'th': th, 'center': draw(st.sampled_from(['peak', 'trough'])),
            'r': draw(st.sampled_from([0, 0, 0.05, 0.1, 0.3])), 'offset_index': draw(st.sampled_from([0, 0, 0, 1, 5, 100, 'repeated'])),
            'columns': draw(st.sampled_from(['natural', 'natural', 'sorted', 'reversed', 'consistency-last']))}


PARTS = [
    Part('pipeline', check_pipeline, strategy=strat_pipeline, budget={'quick': 700, 'thorough': 30000},
         shards={'quick': 10, 'thorough': 16}),
    Part('synthetic', check_synth, strategy=strat_synth, budget={'quick': 4000, 'thorough': 200000},
         shards={'quick': 6, 'thorough': 16}),
]
