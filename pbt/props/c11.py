"""C11 - 2-D group analysis equals per-signal analysis, in order."""
import warnings

import numpy as np
from hypothesis import strategies as st

import gen
import ref
import group_common as gc
from harness import Part, Violation, Discard, guarded, with_timeout
from bycycle import BycycleGroup
from bycycle.group import compute_features_2d

ID = 'C11'
TITLE = '2-D group analysis equals per-signal analysis, in order'
REGISTER = True
TECHNIQUE = ('Hypothesis property-based testing with harness-injected worker delays: one-vs-many differential - result i of '
             'compute_features_2d(axis=0) / BycycleGroup.fit must be bit-identical to compute_features on row i alone with row i\'s '
             'options - over shared / per-row option lists, n_jobs, progress, array dtype / memory layout, repeated fits of one object, and perturbed worker completion orders; the per-row references are computed in freshly forked processes so that per-process state cannot poison reference and subject alike; the same differential with spawn / forkserver workers and on one array of more than 64 MiB')
LEVEL_TEXT = ('Generated-input search (320 pool runs quick, 6k thorough) over 1-6 pairwise different rows (up to 12 rows with n_jobs=1, '
              'where batching would matter), option dict / per-row lists (own centring, method, thresholds per row), n_jobs in '
              '{1, 2, rows, rows+3, -1}, progress None/"tqdm", return_samples (also contradicted inside the option dict) and per-row '
              'delays up to 60 ms (including reversed completion order). The OS schedule is perturbed, not enumerated. Plus 24 (quick) / 400 (thorough) '
              'runs with the start method set to spawn / forkserver, and one call on a 68 MiB array with a per-row option list and two workers.')
RULE = ('Hypothesis: rows = distinct noisy asymmetric / bursty oscillations sharing fs, band and length; options: None, one dict, the same '
        'dict object repeated in a list, or a list of different dicts; delays drawn per row and injected by rebinding compute_features '
        '(same qualified name) before the pool forks, so with n_jobs >= rows the completion order is the order of the delays. Oracle: '
        'len(result) == rows and result[i] bit-equal (columns, dtypes, values) to the un-delayed compute_features(row i, options i); '
        'BycycleGroup: df_features[i] likewise, models[i].df_features is that table and models[i].sig equals row i. Non-trivial: >= 2 rows '
        'whose reference tables differ pairwise, n_jobs >= 2 and an earlier row delayed longer than a later one; or per-row options that '
        'differ. Distinct = distinct case.')
ASSUMPTIONS = ['multiprocessing start method is fork (asserted) except in the part spawned-workers, which sets spawn / forkserver for the call; delays perturb but do not own the OS schedule',
               'a call that does not return within 90 s is inconclusive (CPython Pool teardown race), never a violation']
TRUSTED = ['numpy', 'pandas', 'multiprocessing (fork)']


@st.composite
def strategy(draw, tier):
    band, n = draw(gc.st_group_base())
    big = draw(st.integers(0, 3)) == 0
    rows = draw(st.integers(8, 12)) if big else draw(st.integers(1, 6))
    sigs = [draw(gc.st_row_signal(band, n, k)) for k in range(rows)]
    mode = draw(st.sampled_from(['none', 'dict', 'dict', 'list', 'list', 'same-dict-list']))
    if mode in ('dict', 'same-dict-list'):
        opts = draw(gc.st_options(band, sparse=True))
    elif mode == 'list':
        opts = [draw(gc.st_options(band, sparse=True)) for _ in range(rows)]
    else:
        opts = None
    n_jobs = 1 if big and draw(st.integers(0, 2)) > 0 else draw(st.sampled_from([1, 2, 2, rows, rows + 3, -1]))
    delays = draw(st.lists(st.sampled_from([0, 0, 10, 20, 40, 60]), min_size=rows, max_size=rows))
    if draw(st.integers(0, 2)) == 0:
        delays = sorted(delays, reverse=True)
    return {'fs': band['fs'], 'f_range': band['f_range'], 'sigs': sigs, 'mode': mode, 'opts': opts, 'n_jobs': n_jobs,
            'delays': delays if not big else [0] * rows, 'progress': draw(st.sampled_from([None, None, 'tqdm'])),
            'return_samples': draw(st.sampled_from([True, True, False])), 'rs_in_dict': draw(st.sampled_from([None, None, True, False])),
            'via': draw(st.sampled_from(['func', 'group'])), 'layout': draw(st.sampled_from(['C', 'C', 'C', 'F'])),
            'dtype': draw(st.sampled_from(['float64', 'float64', 'float64', 'float32', 'int64'])), 'refit': draw(st.booleans()),
            'omit_defaults': draw(st.booleans())}


def check(case, rec):
    import multiprocessing
    if multiprocessing.get_start_method() != 'fork':
        raise RuntimeError('multiprocessing start method is not fork')
    fs, fr = case['fs'], tuple(case['f_range'])
    X = np.array([gen.render_signal(s) for s in case['sigs']])
    if case.get('dtype') == 'float32':
        X = X.astype(np.float32)            # row i alone is then a float32 signal as well
    elif case.get('dtype') == 'int64':
        X = np.round(X * 50).astype(np.int64)
    if case.get('layout') == 'F':
        X = np.asfortranarray(X)            # same values and shape, column-major memory
    rows = len(X)
    mode, opts = case['mode'], case['opts']
    per_row = [opts[i] if mode == 'list' else opts for i in range(rows)]
    rs = case['return_samples']
    via = case['via']
    if via == 'group' and mode in ('list', 'same-dict-list'):
        via = 'func'
    # references (un-delayed original function, fresh options)
    try:
        refs = [gc.isolated(gc.reference, X[i], fs, fr, gc.materialise(per_row[i]), return_samples=rs) for i in range(rows)]
    except Exception as exc:  # noqa
        raise Discard('a row is not analysable alone (%s)' % type(exc).__name__)
    if mode == 'list':
        arg = [gc.materialise(o) for o in opts]
    elif mode == 'same-dict-list':
        d = gc.materialise(opts)
        arg = [d] * rows
    elif mode == 'dict':
        arg = gc.materialise(opts)
    else:
        arg = None
    if case['rs_in_dict'] is not None and isinstance(arg, dict):
        arg['return_samples'] = case['rs_in_dict']
    gc.install_delays([(X[i], case['delays'][i] / 1000.0) for i in range(rows)])
    try:
        with warnings.catch_warnings(), gc.start_method(case.get('start_method')):
            warnings.simplefilter('ignore')
            if via == 'func':
                kw = dict(compute_features_kwargs=arg, axis=0, return_samples=rs, n_jobs=case['n_jobs'], progress=case['progress'])
                if case.get('omit_defaults'):
                    for key, default in (('axis', 0), ('return_samples', True), ('progress', None), ('compute_features_kwargs', None)):
                        if kw[key] is default or (kw[key] == default and isinstance(kw[key], (int, bool))):
                            kw.pop(key)
                out = with_timeout(lambda: guarded(compute_features_2d, X, fs, fr, **kw), 90)
                models = None
            else:
                o = gc.materialise(opts) or {}
                bg = guarded(BycycleGroup, center_extrema=o.get('center_extrema', 'peak'), burst_method=o.get('burst_method', 'cycles'),
                             burst_kwargs=o.get('burst_kwargs'), thresholds=o.get('threshold_kwargs'),
                             find_extrema_kwargs=o.get('find_extrema_kwargs'), return_samples=rs)
                if case.get('refit'):
                    # the same object was used before on other data
                    with_timeout(lambda: guarded(bg.fit, np.ascontiguousarray(X[::-1][:max(1, rows - 1)]), fs, fr, axis=0, n_jobs=case['n_jobs']), 90)
                with_timeout(lambda: guarded(bg.fit, X, fs, fr, axis=0, n_jobs=case['n_jobs'], progress=case['progress']), 90)
                out, models = bg.df_features, bg.models
    finally:
        gc.remove_delays()
    if not isinstance(out, list) or len(out) != rows:
        raise Violation('result-length', '%s of length %s for %d rows' % (type(out).__name__, len(out) if hasattr(out, '__len__') else '?', rows))
    for i in range(rows):
        ok, why = ref.frames_equal(out[i].reset_index(drop=True), refs[i].reset_index(drop=True))
        if not ok:
            other = [j for j in range(rows) if j != i and ref.frames_equal(out[i].reset_index(drop=True), refs[j].reset_index(drop=True))[0]]
            raise Violation('row-result-differs', 'position %d (%s; n_jobs=%s mode=%s via=%s progress=%s delays=%s)%s' % (
                i, why, case['n_jobs'], mode, via, case['progress'], case['delays'],
                ' - it IS the table of row %s' % other if other else ''))
    if models is not None:
        if len(models) != rows:
            raise Violation('models-length', '%d models for %d rows' % (len(models), rows))
        for i, m in enumerate(models):
            if m.df_features is not out[i] and not ref.frames_equal(m.df_features, out[i])[0]:
                raise Violation('model-table-mismatch', 'models[%d]' % i)
            if not np.array_equal(m.sig, X[i]):
                raise Violation('model-signal-mismatch', 'models[%d].sig is not row %d' % (i, i))
    distinct = all(not ref.frames_equal(refs[i], refs[j])[0] for i in range(rows) for j in range(i))
    nj = case['n_jobs'] if case['n_jobs'] != -1 else 16
    reordered = nj >= 2 and any(case['delays'][i] > case['delays'][j] for i in range(rows) for j in range(i + 1, rows))
    differing_opts = mode == 'list' and any(per_row[i] != per_row[0] for i in range(rows))
    rec.label('rows:%s' % (rows if rows < 7 else '>=8'), 'mode:' + mode, 'n_jobs:%s' % ('-1' if case['n_jobs'] == -1 else ('1' if nj == 1 else ('>=rows' if nj >= rows else '2..rows-1'))),
              'reordered-completion' if reordered else 'in-order', 'via:' + via, 'progress:%s' % case['progress'],
              'samples:%s' % rs, 'start-method:%s' % (case.get('start_method') or 'fork'), 'layout:%s' % case.get('layout', 'C'), 'dtype:%s' % case.get('dtype', 'float64'), 'distinct-rows' if distinct else 'duplicate-tables')
    rec.nontrivial(rows >= 2 and distinct and (reordered or differing_opts or bool(case.get('start_method'))))


@st.composite
def strategy_spawn(draw, tier):
    """the same cases, small, with the caller's start method set to spawn / forkserver (workers do not inherit the parent's memory)"""
    case = draw(strategy(tier))
    case['sigs'] = case['sigs'][:4]
    if case['mode'] == 'list':
        case['opts'] = case['opts'][:4]
    case['delays'] = [0] * len(case['sigs'])
    if case['mode'] == 'none':
        band = {'fs': case['fs'], 'f_range': case['f_range']}
        case['mode'], case['opts'] = 'dict', draw(gc.st_options(band, sparse=True))
    case['n_jobs'] = draw(st.sampled_from([1, 2, 3]))
    case['refit'] = False
    case['start_method'] = draw(st.sampled_from(['spawn', 'spawn', 'forkserver']))
    return case


def enum_huge(tier, shard, nshards):
    if shard == 0:
        yield {'rows': 5, 'n': 1700000, 'n_jobs': 2}          # 68 MB of float64 in one call


def check_huge(case, rec):
    """one call on more than 64 MiB of data with a per-row option list and fewer workers than rows (implementations that hand the
    rows to the pool in several passes must keep rows and options aligned across the passes)"""
    rows, n, fs, fr = case['rows'], case['n'], 500, (3.0, 5.0)
    t = np.arange(n) / fs
    X = np.array([np.sin(2 * np.pi * (3.6 + 0.2 * i) * t) * (1 + 0.6 * np.sin(2 * np.pi * (0.031 + 0.007 * i) * t)) + 0.2 * np.sin(2 * np.pi * 17.3 * t + i) for i in range(rows)])
    opts = [{'center_extrema': ['peak', 'trough'][i % 2], 'threshold_kwargs': {'amp_fraction_threshold': 0.1 * i, 'amp_consistency_threshold': 0.3 + 0.1 * i,
             'period_consistency_threshold': 0.5, 'monotonicity_threshold': 0.6, 'min_n_cycles': 1 + i % 3}} for i in range(rows)]
    with warnings.catch_warnings():
        warnings.simplefilter('ignore')
        out = with_timeout(lambda: guarded(compute_features_2d, X, fs, fr, compute_features_kwargs=gen.copy_json(opts), axis=0, n_jobs=case['n_jobs']), 1500)
        if not isinstance(out, list) or len(out) != rows:
            raise Violation('result-length', 'huge array: %s' % type(out).__name__)
        for i in range(rows):
            want = gc.isolated(gc.reference, X[i], fs, fr, gen.copy_json(opts[i]), return_samples=True)
            ok, why = ref.frames_equal(out[i].reset_index(drop=True), want.reset_index(drop=True))
            if not ok:
                raise Violation('row-result-differs', 'huge array (%d x %d float64, n_jobs=%d): position %d: %s' % (rows, n, case['n_jobs'], i, why))
    rec.label('huge-array:%dMB' % (X.nbytes // 2 ** 20))
    rec.nontrivial(True)


PARTS = [Part('group-2d', check, strategy=strategy, budget={'quick': 320, 'thorough': 6000}, shards={'quick': 16, 'thorough': 16},
              time_cap={'quick': 200, 'thorough': 3000}),
         Part('huge-array', check_huge, enum=enum_huge, shards={'quick': 1, 'thorough': 1}, exhaustive=True,
              time_cap={'quick': 600, 'thorough': 2400}),
         Part('spawned-workers', check, strategy=strategy_spawn, budget={'quick': 24, 'thorough': 400}, shards={'quick': 8, 'thorough': 16},
              time_cap={'quick': 200, 'thorough': 2400})]
