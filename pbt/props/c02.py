"""C02 - Extrema are raw-signal extremes of narrowband half-waves."""
import math

import numpy as np
from hypothesis import strategies as st

import gen
import ref
from harness import Part, Violation, Discard, guarded
from bycycle.cyclepoints import find_extrema

ID = 'C02'
TITLE = 'Extrema are raw-signal extremes of narrowband half-waves'
RULE = ('Hypothesis: signal recipes (sines, asymmetric, sawtooth, gaussian trains, chirps, bursty, 1/f, white; '
        'quantised / integer-quantised / clipped / held / zeroed / DC / scaled / negated) and raw low-resolution integer '
        'arrays x fs x band x filter_kwargs (n_cycles | n_seconds | {} | None) x boundary x first_extrema in '
        '{peak, trough, None} x pad x raw dtype (float64, float32, int64, int16 saturating at both rails, uint16 with zeros). Oracle: (a) exact equality with an independent half-wave model (run-length '
        'encoding of the sign of the neurodsp-filtered padded signal, argmax/argmin of the raw window, first occurrence), '
        '(b) direct predicates on the returned indices (inside the window, >= all, strictly > all earlier, one per closed '
        'half-wave, boundary, first_extrema start kind and equal counts). Non-trivial: a reported extremum lies in an in-signal window with a tied '
        'extreme value (first-occurrence rule exercised), or boundary>0 dropped an in-signal extremum, or first_extrema trimming dropped one. '
        'Discarded: fewer than 2 peaks or 2 troughs after boundary trimming (outside the three-oscillation domain).')
REGISTER = True
TECHNIQUE = 'Hypothesis property-based testing of find_extrema: differential against an independent half-wave reference model plus direct extremum predicates, over raw dtypes, numpy-scalar arguments, a repeated call with the same option objects and a second filter length in the same process'
LEVEL_TEXT = 'Generated-input search (2.4k cases quick, 60k thorough) over signal families, sampling rates, bands, filter lengths, boundaries, first_extrema and pad; exact index equality with the reference and window predicates on every returned index. Sampling, not exhaustive.'
ASSUMPTIONS = ['neurodsp filter_signal / compute_filter_length are trusted (not bycycle code)',
               'window convention: a crossing is the last sample before the sign change (<=0 -> >0) of the filtered signal; '
               'peak window [up-crossing, down-crossing), trough window [down-crossing, up-crossing)']
TRUSTED = ['numpy', 'neurodsp.filt.filter_signal', 'neurodsp.filt.fir.compute_filter_length']


@st.composite
def strategy_(draw, tier):
    band = draw(gen.st_band())
    fk = draw(gen.st_filter_kwargs(band))
    fs, (f_lo, f_hi) = band['fs'], band['f_range']
    p_lo = fs / f_lo
    n_min = int(max(gen.filt_len_of(band, fk) + 8, 6 * p_lo))
    n = draw(st.integers(n_min, max(n_min + 64, int(min(3000, 40 * p_lo)))))
    sig = draw(gen.st_signal(band, n, tie_rich=draw(st.booleans())))
    bnd = draw(st.sampled_from([0, 0, 1, 2, 5, int(round(p_lo)), n // 5, n // 3]))
    case = {'fs': fs, 'f_range': [f_lo, f_hi], 'sig': sig, 'fk': fk, 'boundary': bnd,
            'first': draw(st.sampled_from(['peak', 'trough', None])), 'pad': draw(st.sampled_from([True, True, False])),
            'dtype': draw(st.sampled_from(['float64'] * 5 + ['float32', 'int64', 'int16-rails', 'uint16', 'int64-rails', 'float16', 'float32-huge'])),
            'np_scalars': draw(st.integers(0, 3)) == 0}
    if case['pad'] and draw(st.integers(0, 9)) == 0:
        # recordings shorter than the filter (down to a fraction of it): with pad=True they are accepted
        fl = gen.filt_len_of(band, fk)
        n2 = draw(st.integers(max(8, fl // 5), max(9, fl + 4)))
        case['sig'] = draw(gen.st_signal(band, n2, tie_rich=False))
        case['boundary'] = 0
    if case['pad'] and draw(st.integers(0, 7)) == 0:
        # a boundary at least as wide as the padding, on a recording whose band-limited part fades in and out on a slow drift:
        # half-waves that run into the edge are longer than the boundary, so what the padding closes matters far inside
        case['boundary'] = int(math.ceil(gen.filt_len_of(band, case['fk']) / 2)) + draw(st.integers(0, 25))
        case['drift'] = draw(st.sampled_from([0.6, 1.3, 2.5]))
        case['dtype'] = 'float64'
    if draw(st.integers(0, 7)) == 0:
        # half-waves that touch the edge of the recording: a rhythm riding on a baseline, a kernel so short that its response has
        # no further zero-crossing inside the padding, nothing dropped at the boundary
        case.update(fk={'n_cycles': draw(st.sampled_from([0.5, 1, 1.1, 1.25, 1.4]))}, pad=True, boundary=0, dtype='float64',
                    baseline=draw(st.sampled_from([-1.0, -0.5, 0.5, 1.0, -2.0])))
    return case


def cast(x, kind):
    """find_extrema only orders raw samples inside windows, so any real dtype is a legitimate input here; the reference
    works on the float64 image of the same values for filtering and orders the raw samples in their own dtype"""
    x = np.asarray(x, dtype=float)
    if kind == 'float32':
        return x.astype(np.float32)
    span = max(float(np.max(np.abs(x))), 1e-300)
    if kind == 'int64':
        # counts of ordinary size whatever unit the recipe was rendered in (x * 8 overflowed int64 for the 1e12 gains)
        return np.round(x * 8).astype(np.int64) if span < 1e6 else np.round(x / span * 4096).astype(np.int64)
    if kind == 'int16-rails':          # ADC counts that saturate at both rails (-32768 and 32767)
        return np.clip(np.round(x / span * 40000), -32768, 32767).astype(np.int16)
    if kind == 'int64-rails':          # 64-bit counts clipping at +-2**61 with the last bit toggling: neighbours that float64 cannot tell apart
        xi = np.clip(np.round(x / span * 1.4 * 2.0 ** 61), -2.0 ** 61, 2.0 ** 61).astype(np.int64)
        return xi + ((np.arange(len(xi)) * 7) % 3 == 0).astype(np.int64)
    if kind == 'float16':              # half-precision storage with an offset (finite, but its plain sum overflows float16)
        return (x / span * 40 + 80).astype(np.float16)
    if kind == 'float32-huge':         # large single-precision values (1e30: sums over a kernel still fit float32; values near 1e37 overflow inside the trusted filter)
        return (x / span * 1e30).astype(np.float32)
    if kind == 'uint16':               # offset binary bottoming out at 0
        return np.clip(np.round(x / span * 40000 + 30000), 0, 65535).astype(np.uint16)
    return x


def check(case, rec):
    x = cast(gen.render_signal(case['sig']), case.get('dtype', 'float64'))
    if case.get('baseline'):
        x = x + case['baseline'] * float(np.max(np.abs(x)) or 1.0)
    if case.get('drift'):
        tt = np.arange(len(x)) / max(1, len(x) - 1)
        x = x * np.sin(np.pi * tt) ** 2 + case['drift'] * float(np.max(np.abs(x)) or 1.0) * np.sin(2 * np.pi * 0.8 * tt + 0.4)
    n = len(x)
    fs, fr, fk, bnd, first, pad = case['fs'], tuple(case['f_range']), case['fk'], case['boundary'], case['first'], case['pad']
    # reference first: decides the domain
    off, xp, waves = ref.halfwaves(x, fs, fr, fk, pad)
    raw_p = np.array([w0 + int(np.argmax(xp[w0:w1])) for v, w0, w1 in waves if v], dtype=int) - off
    raw_t = np.array([w0 + int(np.argmin(xp[w0:w1])) for v, w0, w1 in waves if not v], dtype=int) - off
    keep_p = raw_p[(raw_p > bnd) & (raw_p < n - bnd)]
    keep_t = raw_t[(raw_t > bnd) & (raw_t < n - bnd)]
    if len(keep_p) < 2 or len(keep_t) < 2:
        raise Discard('fewer than two peaks or troughs inside the boundary')
    exp_p, exp_t = ref.ref_extrema(x, fs, fr, fk, bnd, first, pad)
    xin = x.copy()
    kwargs = dict(boundary=bnd, first_extrema=first, pad=pad)
    if fk is not None:
        kwargs['filter_kwargs'] = gen.copy_json(fk)
    if case.get('np_scalars'):
        # the same values as numpy scalars (settings read from an array / a pandas row)
        kwargs['boundary'] = np.int64(bnd)
        kwargs['pad'] = np.bool_(pad)
        fs = np.float64(fs)
        if fk and fk.get('n_cycles') is not None:
            kwargs['filter_kwargs'] = dict(fk, n_cycles=(np.int64(fk['n_cycles']) if float(fk['n_cycles']).is_integer() else np.float64(fk['n_cycles'])))
    peaks, troughs = guarded(find_extrema, xin, fs, fr, **kwargs)
    peaks = np.asarray(peaks)
    troughs = np.asarray(troughs)
    # the same call again with the same option objects (a caller sweeping channels reuses one filter_kwargs dict)
    p2, t2 = guarded(find_extrema, xin, fs, fr, **kwargs)
    if not (np.array_equal(peaks, p2) and np.array_equal(troughs, t2)):
        raise Violation('second-call-differs', 'find_extrema called twice with the same filter_kwargs object %r gives different extrema' % (kwargs.get('filter_kwargs'),))
    fk2 = {'n_cycles': {1: 2, 2: 3, 3: 4, 4: 5, 5: 4, 7: 5}.get((fk or {}).get('n_cycles') or 3, 2)}
    # directly after the calls above: a shorter recording whose PADDED length is the same although its pad is wider
    # a recording whose PADDED length equals that of the first call although its pad is narrower / wider
    if pad and fk2 is not None:
        n3 = n + 2 * (ref.pad_amount(fs, fr, fk, True) - ref.pad_amount(fs, fr, fk2, True))
        if gen.filt_len_of({'fs': fs, 'f_range': list(fr)}, fk2) + 4 < n3 <= n:
            x3 = np.ascontiguousarray(xin[:n3])
            try:
                exp3 = ref.ref_extrema(x3, fs, fr, fk2, bnd, first, True)
            except Discard:
                exp3 = None
            if exp3 is not None and len(exp3[0]) >= 2 and len(exp3[1]) >= 2 and bnd < n3 // 3:
                got3 = guarded(find_extrema, x3, fs, fr, boundary=bnd, first_extrema=first, pad=True, filter_kwargs=dict(fk2))
                if not (np.array_equal(got3[0], exp3[0]) and np.array_equal(got3[1], exp3[1])):
                    raise Violation('equal-padded-length-differs-from-reference', 'after a call on %d samples with %r, the call on %d samples with %r (same padded length) deviates' % (n, fk, n3, fk2))
                rec.label('equal-padded-length')
    # another filter length on the same signal, band and rate in the same process: results must not depend on what was
    # computed before (no per-process state keyed too coarsely)
    fk2 = {'n_cycles': {1: 2, 2: 3, 3: 4, 4: 5, 5: 4, 7: 5}.get((fk or {}).get('n_cycles') or 3, 2)}
    if gen.filt_len_of({'fs': fs, 'f_range': list(fr)}, fk2) + 4 < n:
        try:
            exp2 = ref.ref_extrema(x, fs, fr, fk2, bnd, first, pad)
        except Discard:
            exp2 = None
        if exp2 is not None and len(exp2[0]) >= 2 and len(exp2[1]) >= 2:
            got2 = guarded(find_extrema, xin, fs, fr, boundary=bnd, first_extrema=first, pad=pad, filter_kwargs=dict(fk2))
            if not (np.array_equal(got2[0], exp2[0]) and np.array_equal(got2[1], exp2[1])):
                raise Violation('second-configuration-differs-from-reference', 'after a call with filter_kwargs=%r, the call with %r (pad=%s) deviates from the reference' % (fk, fk2, pad))
            rec.label('second-configuration')
    rec.label(*gen.signal_classes(case['sig']))
    rec.label('args:numpy-scalars' if case.get('np_scalars') else 'args:python', 'dtype:' + case.get('dtype', 'float64'), 'first:%s' % first, 'pad:%s' % pad, 'boundary:%s' % ('0' if bnd == 0 else '>0'),
              'filt:' + ('default' if not fk else ('n_seconds' if 'n_seconds' in fk else 'n_cycles')))
    for name, got in (('peaks', peaks), ('troughs', troughs)):
        if got.ndim != 1 or got.dtype.kind not in 'iu':
            raise Violation('type', '%s: dtype %s ndim %d' % (name, got.dtype, got.ndim))
    # --- direct predicates on the returned indices
    for name, got, rawk, sign in (('peak', peaks, raw_p, 1.0), ('trough', troughs, raw_t, -1.0)):
        if len(got) and (got.min() <= bnd or got.max() >= n - bnd):
            raise Violation('boundary', '%s outside (boundary, len-boundary): %s' % (name, got[(got <= bnd) | (got >= n - bnd)][:5]))
        if np.any(np.diff(got) <= 0):
            raise Violation('order', '%ss not strictly increasing' % name)
        wins = [(w0 - off, w1 - off) for v, w0, w1 in waves if v == (sign > 0)]
        for g in got:
            w = [(a, b) for a, b in wins if a <= g < b]
            if len(w) != 1:
                raise Violation('not-in-a-closed-half-wave', '%s at %d' % (name, g))
            a, b = w[0]
            seg = xp[a + off:b + off] if sign > 0 else -xp[a + off:b + off]      # no float product: 64-bit counts stay exact
            j = int(g) - a
            if np.any(seg > seg[j]):
                raise Violation('not-the-extreme-of-its-window', '%s at %d, window [%d,%d)' % (name, g, a, b))
            if np.any(seg[:j] >= seg[j]):
                raise Violation('not-the-first-extreme', '%s at %d, window [%d,%d)' % (name, g, a, b))
        # one per window
        owners = [sum(1 for g in got if a <= g < b) for a, b in wins]
        if any(o > 1 for o in owners):
            raise Violation('two-extrema-in-one-half-wave', name)
    if first in ('peak', 'trough'):
        if len(peaks) != len(troughs):
            raise Violation('unequal-counts', '%d peaks, %d troughs with first_extrema=%s' % (len(peaks), len(troughs), first))
        if len(peaks):
            a, b = (peaks, troughs) if first == 'peak' else (troughs, peaks)
            if not (a[0] < b[0] and a[-1] < b[-1]):
                raise Violation('first-extrema-kind', 'first_extrema=%s but sequence starts/ends wrong' % first)
    # --- differential
    if not np.array_equal(peaks, exp_p):
        raise Violation('peaks-differ-from-reference', ref.first_diff(peaks, exp_p) if len(peaks) == len(exp_p)
                        else 'count %d vs %d' % (len(peaks), len(exp_p)))
    if not np.array_equal(troughs, exp_t):
        raise Violation('troughs-differ-from-reference', ref.first_diff(troughs, exp_t) if len(troughs) == len(exp_t)
                        else 'count %d vs %d' % (len(troughs), len(exp_t)))
    if not np.array_equal(xin, x):
        raise Violation('input-mutated', '')
    # --- non-triviality
    tie = False
    reported = set(peaks.tolist()) | set(troughs.tolist())
    for v, w0, w1 in waves:
        if w0 - off < 0 or w1 - off > n:
            continue
        seg = xp[w0:w1]
        m = seg.max() if v else seg.min()
        first_at = w0 - off + int(np.argmax(seg == m))
        if np.count_nonzero(seg == m) > 1 and first_at in reported:
            tie = True
            break
    dropped = bnd > 0 and (np.any((raw_p >= 0) & (raw_p < n) & ((raw_p <= bnd) | (raw_p >= n - bnd))) or
                           np.any((raw_t >= 0) & (raw_t < n) & ((raw_t <= bnd) | (raw_t >= n - bnd))))
    trimmed = len(exp_p) != len(keep_p) or len(exp_t) != len(keep_t)
    rec.label('tie-in-window' if tie else 'no-tie', 'dropped-by-boundary' if dropped else 'none-dropped',
              'trimmed-by-first' if trimmed else 'not-trimmed')
    rec.nontrivial(tie or dropped or trimmed)


PARTS = [Part('find_extrema', check, strategy=lambda tier: strategy_(tier),
              budget={'quick': 2400, 'thorough': 60000}, shards={'quick': 8, 'thorough': 16})]
