"""C09 - Peak- and trough-centred analyses are mirror images."""
import numpy as np
from hypothesis import strategies as st

import gen
import ref
import pipeline
from harness import Part, Violation, Discard, guarded

ID = 'C09'
TITLE = 'Peak- and trough-centred analyses are mirror images'
REGISTER = True
TECHNIQUE = ('Hypothesis property-based testing of the metamorphic relation compute_features(sig, trough) == '
             'rename/negate/1-x(compute_features(-sig, peak)), compared bit-exactly column by column, for both burst methods '
             'and with/without sample columns')
LEVEL_TEXT = ('Generated-input search (800 pairs of pipeline runs quick, 25k thorough) over the C01 signal/option domain with '
              'tie-rich signals over-weighted. Negation is exact in IEEE arithmetic through filtering, Hilbert transform and ratios, '
              'so every column is compared exactly (NaN == NaN). Sampling, not exhaustive.')
RULE = ('Hypothesis: C01 domain (both burst methods, thresholds, filters, boundary, return_samples True/False). Oracle: same row '
        'count; after swapping peak/trough and rise/decay names, negating volt_peak/volt_trough and replacing time_rdsym/time_ptsym '
        'by 1-x in the peak-centred table of the negated signal, every column (sample indices, shape features, burst features, '
        'is_burst) equals the trough-centred table of the original signal. Non-trivial: >= 4 rows, and (cycles) an amp_consistency '
        'minimum attained at a neighbour pair in >= 1 row or a plateau step inside a flank, or (amp) a partially bursting cycle; and '
        'labels not all equal. Distinct = distinct case.')
ASSUMPTIONS = ['negation of a float64 array is exact, so the comparison needs no tolerance (1-(1-x) is compared against the same expression)']
TRUSTED = ['numpy', 'pandas']

RENAME = {'time_peak': 'time_trough', 'time_trough': 'time_peak', 'volt_peak': 'volt_trough', 'volt_trough': 'volt_peak',
          'time_rise': 'time_decay', 'time_decay': 'time_rise', 'volt_rise': 'volt_decay', 'volt_decay': 'volt_rise',
          'sample_peak': 'sample_trough', 'sample_zerox_decay': 'sample_zerox_rise', 'sample_zerox_rise': 'sample_zerox_decay',
          'sample_last_zerox_decay': 'sample_last_zerox_rise', 'sample_last_trough': 'sample_last_peak',
          'sample_next_trough': 'sample_next_peak'}


def mirror(df_p):
    """documented mapping of a peak-centred table of -sig onto the trough-centred table of sig"""
    out = {}
    for col in df_p.columns:
        v = df_p[col].values
        new = RENAME.get(col, col)
        if col in ('volt_peak', 'volt_trough'):
            v = -v
        elif col in ('time_rdsym', 'time_ptsym'):
            v = 1 - v
        out[new] = v
    return out


@st.composite
def strategy(draw, tier):
    case = draw(gen.st_analysis_case(tie_rich=draw(st.booleans()), bursty=draw(st.booleans())))
    case['same_object'] = draw(st.integers(0, 2)) == 0
    return case


def check(case, rec):
    x = gen.render_signal(case['sig'])
    case_t = dict(case, center='trough')
    case_p = dict(case, center='peak')
    pipeline.expected_cycles(case_t, x)
    if case['method'] == 'amp':
        pipeline.trusted_burst_mask(case_t, x)
    df_t = pipeline.analyse(case_t, x)
    df_p = pipeline.analyse(case_p, -x)
    same_object = bool(case.get('same_object'))
    if same_object:
        try:
            pipeline.expected_cycles(case_p, x)          # the peak-centred analysis of x itself has its own precondition
        except Discard:
            same_object = False
    if same_object:
        # both centrings asked of ONE array object, one right after the other (the usual exploratory workflow)
        import warnings
        from bycycle.features import compute_features
        buf = np.array(x, copy=True)
        with warnings.catch_warnings():
            warnings.simplefilter('ignore')
            guarded(compute_features, buf, case['fs'], tuple(case['f_range']), **gen.cf_kwargs(case_p))
            again_t = guarded(compute_features, buf, case['fs'], tuple(case['f_range']), **gen.cf_kwargs(case_t))
        ok, why = ref.frames_equal(again_t, df_t)
        if not ok:
            raise Violation('trough-after-peak-on-the-same-array', why)
    rec.label(*[l for l in gen.case_labels(case) if not l.startswith('center:')])
    if len(df_t) != len(df_p):
        raise Violation('row-count', 'trough-centred %d rows, mirrored peak-centred %d rows' % (len(df_t), len(df_p)))
    m = mirror(df_p)
    if set(m) != set(df_t.columns):
        raise Violation('column-set', 'only in trough table: %s; only in mirrored: %s' % (
            sorted(set(df_t.columns) - set(m)), sorted(set(m) - set(df_t.columns))))
    for col in df_t.columns:
        a, b = df_t[col].values, m[col]
        if a.dtype != b.dtype:
            raise Violation('dtype:' + col, '%s vs %s' % (a.dtype, b.dtype))
        ok = ref.same_float(a, b) if a.dtype.kind == 'f' else np.array_equal(a, b)
        if not ok:
            raise Violation('mirror:' + col, ref.first_diff(a, b))
    n = len(df_t)
    lab = df_t['is_burst'].values
    mixed = bool(lab.any() and not lab.all())
    if case['method'] == 'cycles':
        xs_df = df_t if case.get('return_samples', True) else pipeline.analyse(case_t, x, return_samples=True)
        ext, F = ref.flank_sequence(x, xs_df)
        from props.c05 import neighbour_pair_decides
        pairing = neighbour_pair_decides(F, n)
        plateau = any(np.any(np.diff(x[a:b + 1]) == 0) for a, b in zip(ext[:-1], ext[1:]))
        interesting = pairing or plateau
        rec.label('neighbour-pair-decides' if pairing else 'own-pair', 'plateau-step' if plateau else 'no-plateau')
    else:
        bf = df_t['burst_fraction'].values
        interesting = bool(np.any((bf > 0) & (bf < 1)))
        rec.label('partial-cycles' if interesting else 'no-partial')
    rec.label('labels-mixed' if mixed else 'labels-uniform')
    rec.nontrivial(n >= 4 and interesting and mixed)


PARTS = [Part('mirror', check, strategy=strategy, budget={'quick': 1600, 'thorough': 25000},
              shards={'quick': 16, 'thorough': 16})]
