"""C01 - Cycle table is a complete, ordered, gap-free segmentation."""
import warnings

import numpy as np
import pandas as pd
from hypothesis import strategies as st

import gen
import ref
import pipeline
from harness import Part, Violation, Discard, guarded
from bycycle import Bycycle

ID = 'C01'
TITLE = 'Cycle table is a complete, ordered, gap-free segmentation'
REGISTER = True
TECHNIQUE = ('Hypothesis property-based testing of compute_features / Bycycle.fit: validity predicate over the returned '
             'table (ordering, tiling, bounds) plus completeness against an independent extrema/midpoint reference')
LEVEL_TEXT = ('Generated-input search (600 cases quick, 40k thorough) over signal families x fs x band x filter length '
              '(n_cycles / n_seconds / default) x boundary x centring x burst method x thresholds x return_samples, '
              'through both the function and the object API. Any exception is a violation. Sampling, not exhaustive.')
RULE = ('Hypothesis: signal recipes and raw integer arrays (see C02) x full option set (centre peak/trough, method cycles/amp '
        'with all min_n_cycles routings, thresholds present/absent, filter n_cycles/n_seconds/default, boundary absent/0/1/small/'
        'one period/n//5, return_samples). Called through compute_features (2/3) or Bycycle.fit (1/3). Oracle: returns a '
        'DataFrame with the documented columns; per row last < centre < next and last <= first midpoint <= centre <= second '
        'midpoint <= next, previous-flank midpoint inside the previous flank; all indices in (boundary, len-boundary); '
        'next[i] == last[i+1]; row count and every sample column equal to the reference segmentation; return_samples=False '
        'gives the same rows and values without sample_ columns. Non-trivial: >= 4 rows and one of {tie at an extremum, '
        'inverted flank, noise component, boundary > 0, n_seconds filter, trough centring, amp method}. Discarded: fewer than '
        'three peaks or troughs after boundary trimming (precondition of the property).')
ASSUMPTIONS = ['three-oscillation precondition decided by the reference extrema finder on the same padded band-passed signal',
               'signal longer than the extrema filter, the 3-cycle band-amplitude filter and the dual-threshold filter',
               'neurodsp filtering is trusted']
TRUSTED = ['numpy', 'pandas', 'neurodsp.filt.filter_signal', 'neurodsp.filt.fir.compute_filter_length']


@st.composite
def strategy(draw, tier):
    case = draw(gen.st_analysis_case(tie_rich=draw(st.integers(0, 2)) == 0))
    case['via'] = draw(st.sampled_from(['func', 'func', 'obj']))
    case['np_errstate'] = draw(st.integers(0, 7)) == 0
    return case


def run(case, x, return_samples):
    if case.get('np_errstate'):
        # the caller runs with numpy's floating-point errors turned into exceptions (np.seterr(divide='raise', invalid='raise'))
        import traceback
        from bycycle.features import compute_features
        sig, fs, fr = gen.call_args(case, x)
        try:
            with warnings.catch_warnings(), np.errstate(divide='raise', invalid='raise'):
                warnings.simplefilter('ignore')
                return compute_features(sig, fs, fr, **gen.cf_kwargs(case, return_samples=return_samples))
        except FloatingPointError as exc:
            last = traceback.extract_tb(exc.__traceback__)[-1].filename.replace('\\', '/')
            if '/bycycle/' not in last or '/tests/' in last:
                raise Discard('a trusted library raises FloatingPointError under np.errstate(raise) on this input')
            raise Violation('raises:FloatingPointError-under-errstate', '%s in %s' % (exc, last.split('/bycycle/', 1)[1]))
        except Exception as exc:  # noqa
            from harness import innermost_repo_frame
            raise Violation('raises:%s@%s' % (type(exc).__name__, innermost_repo_frame(exc.__traceback__)), str(exc)[:200])
    if case['via'] == 'func':
        return pipeline.analyse(case, x, return_samples=return_samples)
    kw = gen.cf_kwargs(case, return_samples=return_samples)
    with warnings.catch_warnings():
        warnings.simplefilter('ignore')
        bm = guarded(Bycycle, center_extrema=kw['center_extrema'], burst_method=kw['burst_method'],
                     burst_kwargs=kw['burst_kwargs'], thresholds=kw['threshold_kwargs'],
                     find_extrema_kwargs=kw['find_extrema_kwargs'], return_samples=return_samples)
        guarded(bm.fit, x.copy(), case['fs'], tuple(case['f_range']))
    return bm.df_features


def check(case, rec):
    x = gen.render_signal(case['sig'])
    n = len(x)
    exp = pipeline.expected_cycles(case, x)
    nm = ref.names(case['center'])
    n_exp = len(exp[nm['center']])
    rs = case.get('return_samples', True)
    if case['method'] == 'amp':
        pipeline.trusted_burst_mask(case, x)      # precondition: the trusted detector is defined here
    df = run(case, x, rs)
    rec.label(*gen.case_labels(case))
    rec.label('via:' + case['via'], 'np-errstate-raise' if case.get('np_errstate') else 'np-errstate-default')
    if not isinstance(df, pd.DataFrame):
        raise Violation('not-a-table', type(df).__name__)
    want = pipeline.SHAPE_COLS + pipeline.BURST_COLS[case['method']] + ['is_burst']
    missing = [c for c in want if c not in df.columns]
    if missing:
        raise Violation('missing-columns', missing)
    if len(df) != n_exp:
        raise Violation('row-count', '%d rows, reference segmentation has %d cycles' % (len(df), n_exp))
    if df['is_burst'].dtype != bool:
        raise Violation('is_burst-dtype', str(df['is_burst'].dtype))
    if not rs:
        sc = pipeline.sample_cols(df)
        if sc:
            raise Violation('sample-columns-present', sc)
        df_true = run(case, x, True)
        twin = df_true.drop(columns=pipeline.sample_cols(df_true))
        ok, why = ref.frames_equal(df.reset_index(drop=True), twin.reset_index(drop=True))
        if not ok:
            raise Violation('return_samples-changes-values', why)
        df = df_true
    sc = [nm['last'], nm['center'], nm['next'], nm['zx1'], nm['zx2'], nm['lzx']]
    missing = [c for c in sc if c not in df.columns]
    if missing:
        raise Violation('missing-sample-columns', missing)
    S = {k: df[nm[k]].values for k in ('last', 'center', 'next', 'zx1', 'zx2', 'lzx')}
    for k, v in S.items():
        if v.dtype.kind not in 'iu':
            raise Violation('sample-dtype', '%s is %s' % (nm[k], v.dtype))
    bnd = (case.get('fek') or {}).get('boundary', 0)
    allidx = np.concatenate(list(S.values()))
    if allidx.min() < 0 or allidx.max() >= n:
        raise Violation('index-outside-signal', 'min %d max %d len %d' % (allidx.min(), allidx.max(), n))
    ext = np.concatenate([S['last'], S['center'], S['next']])
    if ext.min() <= bnd or ext.max() >= n - bnd:
        raise Violation('extremum-inside-boundary', 'boundary %d, extrema range [%d, %d], len %d' % (bnd, ext.min(), ext.max(), n))
    if not (np.all(S['last'] < S['center']) and np.all(S['center'] < S['next'])):
        raise Violation('extrema-order', 'last < centre < next violated')
    if not (np.all(S['last'] <= S['zx1']) and np.all(S['zx1'] <= S['center'])):
        raise Violation('first-midpoint-outside-flank', '')
    if not (np.all(S['center'] <= S['zx2']) and np.all(S['zx2'] <= S['next'])):
        raise Violation('second-midpoint-outside-flank', '')
    if not np.all(S['lzx'] <= S['last']):
        raise Violation('last-midpoint-after-last-extremum', '')
    if len(df) > 1:
        if not np.array_equal(S['next'][:-1], S['last'][1:]):
            raise Violation('tiling', 'next[i] != last[i+1]: %s' % ref.first_diff(S['next'][:-1], S['last'][1:]))
        if not np.all(S['lzx'][1:] >= S['center'][:-1]):
            raise Violation('last-midpoint-outside-previous-flank', '')
        if not np.array_equal(S['lzx'][1:], S['zx2'][:-1]):
            raise Violation('last-midpoint-not-shared', '')
    for k in ('last', 'center', 'next', 'zx1', 'zx2', 'lzx'):
        if not np.array_equal(S[k], exp[nm[k]]):
            raise Violation('differs-from-reference:' + k, '%s: %s' % (nm[k], ref.first_diff(S[k], exp[nm[k]])))
    # --- non-triviality
    xs = x if case['center'] == 'peak' else -x
    ties = any(np.count_nonzero(xs[a:b + 1] == xs[c]) > 1 for a, c, b in zip(S['last'], S['center'], S['next']))
    inverted = bool(np.any(xs[S['center']] < xs[S['last']]) or np.any(xs[S['center']] < xs[S['next']]))
    noisy = case['sig']['kind'] == 'raw' or any(c['type'] in ('pink', 'white') for c in case['sig'].get('comps', []))
    fk = (case.get('fek') or {}).get('filter_kwargs') or {}
    feats = [ties, inverted, noisy, bnd > 0, 'n_seconds' in fk, case['center'] == 'trough', case['method'] == 'amp']
    rec.label('rows:%s' % ('<4' if len(df) < 4 else ('4-15' if len(df) < 16 else '>=16')),
              'ties' if ties else 'no-ties', 'inverted-flank' if inverted else 'no-inverted',
              'bursts:%s' % ('none' if not df['is_burst'].any() else ('all' if df['is_burst'].all() else 'some')))
    rec.nontrivial(len(df) >= 4 and any(feats))


PARTS = [Part('segmentation', check, strategy=strategy, budget={'quick': 1600, 'thorough': 40000},
              shards={'quick': 16, 'thorough': 16})]
