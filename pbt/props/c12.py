"""C12 - 3-D group results sit at the position of their signal."""
import warnings

import numpy as np
from hypothesis import strategies as st

import gen
import ref
import group_common as gc
from harness import Part, Violation, Discard, guarded, with_timeout
from bycycle import BycycleGroup
from bycycle.group import compute_features_3d

ID = 'C12'
TITLE = '3-D group results sit at the position of their signal'
REGISTER = True
TECHNIQUE = ('Hypothesis property-based testing: one-vs-many differential of compute_features_3d / BycycleGroup.fit against '
             'compute_features on the individual signal (axis=(0,1)) or on the flattened slice followed by a reference epoch '
             'partition (axis 0 / 1), over shapes, axis modes, shared / 1-D / 2-D option lists, n_jobs, memory layouts, injected worker delays, repeated fits and a second independent object; references computed in freshly forked processes; the same differential with spawn / forkserver workers and on one array of more than 64 MiB')
LEVEL_TEXT = ('Generated-input search (320 pool runs quick, 6k thorough) over shapes (n0, n1) in {1,2,3}^2 (size-1 and non-square '
              'included), pairwise different signals, axis in {0, 1, (0,1)}, options None / dict / per-slice 1-D list / 2-D list, '
              'n_jobs in {1, 2, 5, -1}, function and object API (the object is fit twice with different data in a fraction of cases). '
              'Exact comparison. Sampling, not exhaustive. Plus 24 (quick) / 400 (thorough) runs with spawn / forkserver workers and one call on a '
              '72 MiB array with a per-signal option grid and four workers.')
RULE = ('Hypothesis: sigs[i, j] = distinct noisy oscillations of common length; per-slice option sets differ in thresholds (and in '
        'centring / method for axis=(0,1)). Oracle: nested list of n0 lists of n1 tables; axis=(0,1): [i][j] bit-equal to '
        'compute_features(sigs[i, j], options[i][j]); axis=0: row i bit-equal to the reference epoch partition of '
        'compute_features(sigs[i].flatten(), options[i]); axis=1: column j likewise for sigs[:, j].flatten() with options[j]; '
        'BycycleGroup: df_features likewise, models[i][j].df_features is df_features[i][j] and models[i][j].sig equals sigs[i, j], also '
        'after an earlier fit of the same object on other data. Non-trivial: n0 != n1 or both >= 2, all reference tables pairwise '
        'different, and (per-slice options differing between slices, or n_jobs >= 2). Distinct = distinct case.')
ASSUMPTIONS = ['return_samples=False is only exercised for axis=(0,1) (for axis 0/1 the epoch path always returns samples; unspecified)',
               'a call that does not return within 120 s is inconclusive (CPython Pool teardown race), never a violation']
TRUSTED = ['numpy', 'pandas', 'multiprocessing (fork)', 'reference epoch partition (validated in C13)']


@st.composite
def strategy(draw, tier):
    band, n = draw(gc.st_group_base(max_len=450))
    n0, n1 = draw(st.integers(1, 3)), draw(st.integers(1, 3))
    sigs = [[draw(gc.st_row_signal(band, n, i * 3 + j)) for j in range(n1)] for i in range(n0)]
    axis = draw(st.sampled_from([0, 1, [0, 1], [0, 1]]))
    mode = draw(st.sampled_from(['none', 'dict', 'list', 'list']))
    center = draw(st.sampled_from(['peak', 'trough']))
    if mode == 'dict':
        opts = draw(gc.st_options(band, sparse=True))
    elif mode == 'list':
        if axis == [0, 1]:
            opts = [[draw(gc.st_options(band, sparse=True)) for _ in range(n1)] for _ in range(n0)]
        else:
            k = n0 if axis == 0 else n1
            opts = [draw(gc.st_options(band, sparse=True)) for _ in range(k)]
    else:
        opts = None
    if mode != 'none' and axis != [0, 1] and draw(st.integers(0, 3)) == 0:
        # "ignore the recording edges": a boundary longer than one epoch, so that the first / last epochs of a slice hold no cycle
        big = n + draw(st.integers(0, n // 2))
        for o in ([opts] if mode == 'dict' else opts):
            o['find_extrema_kwargs'] = dict(o.get('find_extrema_kwargs') or {}, boundary=big)
    return {'fs': band['fs'], 'f_range': band['f_range'], 'sigs': sigs, 'axis': axis, 'mode': mode, 'opts': opts,
            'n_jobs': draw(st.sampled_from([1, 2, 2, 5, -1])), 'return_samples': draw(st.sampled_from([True, True, False])),
            'via': draw(st.sampled_from(['func', 'group'])), 'refit': draw(st.booleans()),
            'progress': draw(st.sampled_from([None, None, 'tqdm'])), 'layout': draw(st.sampled_from(['C', 'C', 'F', 'T'])),
            'delays': draw(st.sampled_from([[], [], [60, 30, 0], [40, 0, 20, 0], [80, 0]])), 'other_object': draw(st.booleans()),
            'duplicate': draw(st.integers(0, 4)) == 0, 'omit_defaults': draw(st.booleans()), 'edit_options': draw(st.integers(0, 2)) == 0}


def slice_reference(block, fs, fr, kw):
    """flattened-epoch analysis of a 2-D block (n_epochs, L) with one option set"""
    flat = gc.isolated(gc.reference, block.flatten(), fs, fr, kw, return_samples=True)
    return ref.ref_epochs(flat, block.shape[1], block.shape[0])


def check(case, rec):
    fs, fr = case['fs'], tuple(case['f_range'])
    X = np.array([[gen.render_signal(s) for s in row] for row in case['sigs']])
    if case.get('duplicate') and X.shape[0] * X.shape[1] >= 2:
        X[-1, -1] = X[0, 0]                 # the same recording at two positions (their options may differ)
    if case.get('layout') == 'F':
        X = np.asfortranarray(X)            # same values and shape, column-major memory (e.g. data loaded from MATLAB files)
    elif case.get('layout') == 'T':
        X = np.ascontiguousarray(np.swapaxes(X, 0, 1)).swapaxes(0, 1)     # a swapaxes view
    n0, n1 = X.shape[:2]
    axis = tuple(case['axis']) if isinstance(case['axis'], list) else case['axis']
    mode, opts = case['mode'], case['opts']
    rs = case['return_samples'] if axis == (0, 1) else True
    via = case['via'] if mode in ('dict', 'none') else 'func'

    def opt_for(i, j):
        if mode == 'list':
            if axis == (0, 1):
                return opts[i][j]
            return opts[i] if axis == 0 else opts[j]
        return opts
    try:
        if axis == (0, 1):
            refs = [[gc.isolated(gc.reference, X[i, j], fs, fr, gc.materialise(opt_for(i, j)), return_samples=rs) for j in range(n1)] for i in range(n0)]
        elif axis == 0:
            refs = [slice_reference(X[i], fs, fr, gc.materialise(opt_for(i, 0))) for i in range(n0)]
        else:
            cols = [slice_reference(X[:, j], fs, fr, gc.materialise(opt_for(0, j))) for j in range(n1)]
            refs = [[cols[j][i] for j in range(n1)] for i in range(n0)]
    except Exception as exc:  # noqa
        raise Discard('a slice is not analysable alone (%s)' % type(exc).__name__)
    if mode == 'list':
        arg = [[gc.materialise(o) for o in r] for r in opts] if axis == (0, 1) else [gc.materialise(o) for o in opts]
    elif mode == 'dict':
        arg = gc.materialise(opts)
    else:
        arg = None
    # perturb worker completion order: delays keyed by the content of what a worker analyses (single signals for
    # axis=(0,1), flattened slices for axis 0 / 1); earlier slices get the longer delays
    units = [X[i, j] for i in range(n0) for j in range(n1)] if axis == (0, 1) else \
            ([X[i].flatten() for i in range(n0)] if axis == 0 else [X[:, j].flatten() for j in range(n1)])
    delays = case.get('delays') or []
    gc.install_delays([(u, (delays[k % len(delays)] if delays else 0) / 1000.0) for k, u in enumerate(units)])
    try:
        with gc.start_method(case.get('start_method')):
            out, models = run_group(case, X, fs, fr, axis, arg, rs, via, opts, n0, n1)
    finally:
        gc.remove_delays()
    return finish_check(case, rec, X, out, models, refs, axis, mode, via, opt_for, n0, n1)


def run_group(case, X, fs, fr, axis, arg, rs, via, opts, n0, n1):
    models = None
    with warnings.catch_warnings():
        warnings.simplefilter('ignore')
        if via == 'func':
            if case.get('edit_options') and isinstance(arg, list) and len(arg) >= 2:
                # the caller first runs the analysis with the entries in another order, then edits the SAME list object in place
                first, last = arg[0], arg[-1]
                arg[0], arg[-1] = last, first
                try:
                    with_timeout(lambda: compute_features_3d(X, fs, fr, compute_features_kwargs=arg, axis=axis, return_samples=rs, n_jobs=case['n_jobs']), 120)
                except Discard:
                    raise
                except Exception:  # noqa - only the second call is judged
                    pass
                arg[0], arg[-1] = first, last
            kw = dict(compute_features_kwargs=arg, axis=axis, return_samples=rs, n_jobs=case['n_jobs'], progress=case['progress'])
            if case.get('omit_defaults'):
                # rely on the documented defaults instead of spelling them out (axis=0, return_samples=True, progress=None)
                for key, default in (('axis', 0), ('return_samples', True), ('progress', None), ('compute_features_kwargs', None)):
                    if kw[key] is default or kw[key] == default and not isinstance(kw[key], tuple):
                        kw.pop(key)
            out = with_timeout(lambda: guarded(compute_features_3d, X, fs, fr, **kw), 120)
            models = None
        else:
            o = gc.materialise(opts) or {}
            bg = guarded(BycycleGroup, center_extrema=o.get('center_extrema', 'peak'), burst_method=o.get('burst_method', 'cycles'),
                         burst_kwargs=o.get('burst_kwargs'), thresholds=o.get('threshold_kwargs'),
                         find_extrema_kwargs=o.get('find_extrema_kwargs'), return_samples=rs)
            if case['refit']:
                other = X[::-1, ::-1][:, :1] if n1 > 1 else X[::-1]
                try:
                    with_timeout(lambda: bg.fit(np.ascontiguousarray(other), fs, fr, axis=axis, n_jobs=case['n_jobs']), 120)
                except Discard:
                    raise
                except Exception:  # noqa - the other data need not be analysable with these options; only the fit below is judged
                    pass
            with_timeout(lambda: guarded(bg.fit, X, fs, fr, axis=axis, n_jobs=case['n_jobs'], progress=case['progress']), 120)
            if case.get('other_object'):
                # a second, independent group object fitted on other data must not disturb this one
                bg2 = guarded(BycycleGroup, center_extrema=o.get('center_extrema', 'peak'), burst_method=o.get('burst_method', 'cycles'),
                              burst_kwargs=o.get('burst_kwargs'), thresholds=o.get('threshold_kwargs'),
                              find_extrema_kwargs=o.get('find_extrema_kwargs'), return_samples=rs)
                try:
                    with_timeout(lambda: bg2.fit(np.ascontiguousarray(X[::-1, ::-1]), fs, fr, axis=axis, n_jobs=case['n_jobs']), 120)
                except Discard:
                    raise
                except Exception:  # noqa - only the first object is judged
                    pass
            out, models = bg.df_features, bg.models
    return out, models


def finish_check(case, rec, X, out, models, refs, axis, mode, via, opt_for, n0, n1):
    if not isinstance(out, list) or len(out) != n0 or any(not isinstance(r, list) or len(r) != n1 for r in out):
        shape = [len(r) if isinstance(r, list) else type(r).__name__ for r in out] if isinstance(out, list) else type(out).__name__
        raise Violation('result-layout', 'layout %s for array (%d, %d), axis=%r' % (shape, n0, n1, axis))
    flat_refs = [(i, j, refs[i][j]) for i in range(n0) for j in range(n1)]
    for i in range(n0):
        for j in range(n1):
            a = out[i][j].reset_index(drop=True)
            ok, why = ref.frames_equal(a, refs[i][j].reset_index(drop=True))
            if not ok:
                other = [(p, q) for p, q, r in flat_refs if (p, q) != (i, j) and ref.frames_equal(a, r.reset_index(drop=True))[0]]
                raise Violation('position-result-differs', '[%d][%d] of (%d,%d) axis=%r mode=%s n_jobs=%s via=%s: %s%s' % (
                    i, j, n0, n1, axis, mode, case['n_jobs'], via, why, ' - it IS the table of position %s' % other if other else ''))
    if models is not None:
        if len(models) != n0 or any(len(r) != n1 for r in models):
            raise Violation('models-layout', '%s for (%d, %d)' % ([len(r) for r in models], n0, n1))
        for i in range(n0):
            for j in range(n1):
                m = models[i][j]
                if m.df_features is not out[i][j] and not ref.frames_equal(m.df_features, out[i][j])[0]:
                    raise Violation('model-table-mismatch', 'models[%d][%d]' % (i, j))
                if not np.array_equal(m.sig, X[i, j]):
                    raise Violation('model-signal-mismatch', 'models[%d][%d].sig is not sigs[%d, %d]' % (i, j, i, j))
    tabs = [r.reset_index(drop=True) for _, _, r in flat_refs]
    distinct = all(not ref.frames_equal(tabs[a], tabs[b])[0] for a in range(len(tabs)) for b in range(a))
    differing = mode == 'list' and len({gen.case_key_json(opt_for(i, j)) for i in range(n0) for j in range(n1)}) > 1
    nj = 16 if case['n_jobs'] == -1 else case['n_jobs']
    rec.label('shape:%dx%d' % (n0, n1), 'axis:%s' % (axis,), 'mode:' + mode, 'via:' + via, 'n_jobs:%s' % case['n_jobs'], 'layout:%s' % case.get('layout', 'C'), 'delays' if case.get('delays') else 'no-delays',
              'distinct' if distinct else 'duplicate-tables', 'refit' if (via == 'group' and case['refit']) else 'single-fit')
    rec.nontrivial((n0 != n1 or (n0 >= 2 and n1 >= 2)) and (distinct or case.get('duplicate')) and (differing or nj >= 2))


@st.composite
def strategy_spawn(draw, tier):
    """the same cases with the caller's start method set to spawn / forkserver (workers do not inherit the parent's memory)"""
    case = draw(strategy(tier))
    case.update(delays=[], refit=False, other_object=False, edit_options=False, n_jobs=draw(st.sampled_from([1, 2, 3])),
                start_method=draw(st.sampled_from(['spawn', 'spawn', 'forkserver'])))
    return case


def enum_huge(tier, shard, nshards):
    if shard == 0:
        yield {'shape': [3, 3, 2 ** 20], 'n_jobs': 4}          # 72 MB of float64 in one call


def check_huge(case, rec):
    """one call on more than 64 MiB with a per-signal option grid and fewer workers than signals (bounded submission windows
    must hand the results back in submission order)"""
    n0, n1, n = case['shape']
    fs, fr = 500, (3.0, 5.0)
    t = np.arange(n) / fs
    X = np.array([[np.sin(2 * np.pi * (3.5 + 0.1 * (i * n1 + j)) * t) * (1 + 0.6 * np.sin(2 * np.pi * (0.031 + 0.007 * j) * t + i)) + 0.2 * np.sin(2 * np.pi * 17.3 * t + i + j)
                   for j in range(n1)] for i in range(n0)])
    opts = [[{'center_extrema': ['peak', 'trough'][(i + j) % 2], 'threshold_kwargs': {'amp_fraction_threshold': 0.05 * (i * n1 + j), 'amp_consistency_threshold': 0.3 + 0.05 * j,
              'period_consistency_threshold': 0.5, 'monotonicity_threshold': 0.6, 'min_n_cycles': 1 + (i + j) % 3}} for j in range(n1)] for i in range(n0)]
    with warnings.catch_warnings():
        warnings.simplefilter('ignore')
        out = with_timeout(lambda: guarded(compute_features_3d, X, fs, fr, compute_features_kwargs=gen.copy_json(opts), axis=(0, 1), n_jobs=case['n_jobs']), 1500)
        if not isinstance(out, list) or len(out) != n0 or any(len(r) != n1 for r in out):
            raise Violation('result-layout', 'huge array: outer %s' % (len(out) if isinstance(out, list) else type(out).__name__))
        for i in range(n0):
            for j in range(n1):
                want = gc.isolated(gc.reference, X[i, j], fs, fr, gen.copy_json(opts[i][j]), return_samples=True)
                ok, why = ref.frames_equal(out[i][j].reset_index(drop=True), want.reset_index(drop=True))
                if not ok:
                    raise Violation('position-result-differs', 'huge array (%s float64, n_jobs=%d): position [%d][%d]: %s' % (case['shape'], case['n_jobs'], i, j, why))
    rec.label('huge-array:%dMB' % (X.nbytes // 2 ** 20))
    rec.nontrivial(True)


PARTS = [Part('group-3d', check, strategy=strategy, budget={'quick': 320, 'thorough': 6000}, shards={'quick': 16, 'thorough': 16},
              time_cap={'quick': 200, 'thorough': 3000}),
         Part('huge-array', check_huge, enum=enum_huge, shards={'quick': 1, 'thorough': 1}, exhaustive=True, time_cap={'quick': 600, 'thorough': 2400}),
         Part('spawned-workers', check, strategy=strategy_spawn, budget={'quick': 24, 'thorough': 400}, shards={'quick': 8, 'thorough': 16},
              time_cap={'quick': 200, 'thorough': 2400})]
