"""C04 - Shape features equal their documented definitions."""
import numpy as np
from hypothesis import strategies as st

import gen
import ref
import pipeline
from harness import Part, Violation, Discard, guarded
from bycycle.features import compute_shape_features, compute_features
from bycycle.utils import rename_extrema_df

ID = 'C04'
TITLE = 'Shape features equal their documented definitions'
REGISTER = True
TECHNIQUE = ('Hypothesis property-based testing: every shape column of compute_features / compute_shape_features is recomputed '
             'from the returned cyclepoints and the ORIGINAL signal by the documented definitions (independent recomputation '
             'oracle), band amplitude via the trusted neurodsp analytic amplitude')
LEVEL_TEXT = ('Generated-input search (1.2k cases quick, 40k thorough) over the C01 signal/option domain, both centrings, with '
              'and without sample columns (the definitions are then evaluated on the twin run with sample columns). Voltage '
              'features and band_amp compared bit-exactly, symmetry fractions with atol 1e-12. Sampling, not exhaustive.')
RULE = ('Hypothesis: C01 domain (signal recipes + raw arrays x option sets x both centrings x return_samples), through '
        'compute_features (3/4) or compute_shape_features (1/4). Oracle: period = next-last = time_rise+time_decay; volt_peak / '
        'volt_trough = signal at the extrema (last side extremum for the side kind); volt_rise / volt_decay = voltage change '
        'along each flank; volt_amp = their mean; time_peak / time_trough = midpoint spans; time_rdsym = time_rise/period in '
        '(0,1); time_ptsym = time_peak/(time_peak+time_trough) in [0,1]; band_amp = mean of the trusted analytic amplitude over '
        '[last, next). Non-trivial: >= 3 rows and at least one row with time_rise != time_decay AND volt_rise != volt_decay '
        '(asymmetric / noisy cycles; the symmetric noiseless sine is trivial). Distinct = distinct generated case.')
ASSUMPTIONS = ['neurodsp amp_by_time(n_cycles=3) is the documented band amplitude (trusted)',
               'three-oscillation precondition as in C01']
TRUSTED = ['numpy', 'pandas', 'neurodsp.timefrequency.amp_by_time']


@st.composite
def strategy(draw, tier):
    case = draw(gen.st_analysis_case())
    case['via'] = draw(st.sampled_from(['features', 'features', 'features', 'shape', 'shape', 'rename', 'buffer']))
    case['shape_n_cycles'] = draw(st.sampled_from([None, None, 2, 4, 5]))
    return case


def expected_shape(x, df_s, center, fs, f_range, n_cycles=3):
    """documented definitions on the original signal; df_s holds the sample columns"""
    nm = ref.names(center)
    last = df_s[nm['last']].values.astype(int)
    cen = df_s[nm['center']].values.astype(int)
    nxt = df_s[nm['next']].values.astype(int)
    zx1 = df_s[nm['zx1']].values.astype(int)
    zx2 = df_s[nm['zx2']].values.astype(int)
    lzx = df_s[nm['lzx']].values.astype(int)
    out = {'period': nxt - last}
    if center == 'peak':
        out['time_rise'] = cen - last
        out['time_decay'] = nxt - cen
        out['volt_peak'] = x[cen]
        out['volt_trough'] = x[last]
        out['volt_rise'] = x[cen] - x[last]
        out['volt_decay'] = x[cen] - x[nxt]
        out['time_peak'] = zx2 - zx1          # decay midpoint - rise midpoint
        out['time_trough'] = zx1 - lzx        # rise midpoint - previous decay midpoint
    else:
        out['time_decay'] = cen - last
        out['time_rise'] = nxt - cen
        out['volt_trough'] = x[cen]
        out['volt_peak'] = x[last]
        out['volt_decay'] = x[last] - x[cen]
        out['volt_rise'] = x[nxt] - x[cen]
        out['time_trough'] = zx2 - zx1        # rise midpoint - decay midpoint
        out['time_peak'] = zx1 - lzx          # decay midpoint - previous rise midpoint
    out['volt_amp'] = (out['volt_decay'] + out['volt_rise']) / 2
    out['time_rdsym'] = out['time_rise'] / out['period']
    out['time_ptsym'] = out['time_peak'] / (out['time_peak'] + out['time_trough'])
    amp = ref.ref_band_amp(x, fs, f_range, n_cycles)
    out['band_amp'] = np.array([np.mean(amp[a:b]) for a, b in zip(last, nxt)])
    return out


EXACT = ['period', 'time_rise', 'time_decay', 'time_peak', 'time_trough', 'volt_peak', 'volt_trough', 'volt_rise',
         'volt_decay', 'volt_amp', 'band_amp']


def check(case, rec):
    x = gen.render_signal(case['sig'])
    pipeline.expected_cycles(case, x)
    rs = case.get('return_samples', True)
    band_n = 3
    if case['method'] == 'amp':
        pipeline.trusted_burst_mask(case, x)
    if case['via'] == 'rename':
        # the documented manual route to a trough-centred table: analyse -sig peak-centred, then rename_extrema_df('trough', ...)
        import warnings
        case = dict(case, center='trough')
        pipeline.expected_cycles(case, x)             # the trough-centred analysis has its own precondition
        kw = gen.cf_kwargs(dict(case, center='peak'))
        with warnings.catch_warnings():
            warnings.simplefilter('ignore')
            df_s = guarded(rename_extrema_df, 'trough', guarded(compute_features, -x, case['fs'], tuple(case['f_range']), **dict(kw, return_samples=True)))
            if rs:
                df = df_s
            else:
                df = guarded(rename_extrema_df, 'trough', guarded(compute_features, -x, case['fs'], tuple(case['f_range']), **dict(kw, return_samples=False)),
                             return_samples=False)
    elif case['via'] == 'buffer':
        # one array object refilled in place between two analyses (acquisition buffer): the second table must describe the new contents
        import warnings
        buf = np.array(x[::-1], copy=True)
        with warnings.catch_warnings():
            warnings.simplefilter('ignore')
            try:
                compute_features(buf, case['fs'], tuple(case['f_range']), **gen.cf_kwargs(case, return_samples=True))
            except Exception:  # noqa - the reversed recording need not be analysable; only the second call is judged
                pass
            buf[:] = x
            df_s = guarded(compute_features, buf, case['fs'], tuple(case['f_range']), **gen.cf_kwargs(case, return_samples=True))
        df = df_s
    elif case['via'] == 'shape':
        nc = case.get('shape_n_cycles')
        if nc:
            # the documented n_cycles argument of compute_shape_features: length of the band-amplitude filter (and of the default
            # extrema filter when no find_extrema_kwargs are given)
            eff = dict(case, fek=case.get('fek') if case.get('fek') is not None else {'filter_kwargs': {'n_cycles': nc}})
            pipeline.expected_cycles(eff, x)
            ref.ref_band_amp(x, case['fs'], tuple(case['f_range']), nc)
            df_s = guarded(compute_shape_features, x.copy(), case['fs'], tuple(case['f_range']), center_extrema=case['center'],
                           find_extrema_kwargs=gen.copy_json(case.get('fek')), n_cycles=nc)
            band_n = nc
        else:
            df_s = guarded(compute_shape_features, x.copy(), case['fs'], tuple(case['f_range']), center_extrema=case['center'],
                           find_extrema_kwargs=gen.copy_json(case.get('fek')))
        df = df_s
    else:
        df = pipeline.analyse(case, x, return_samples=rs)
        df_s = df if rs else pipeline.analyse(case, x, return_samples=True)
    rec.label(*gen.case_labels(case))
    rec.label('via:' + case['via'])
    if len(df) != len(df_s):
        raise Violation('row-count-differs-without-samples', '%d vs %d' % (len(df), len(df_s)))
    nm = ref.names(case['center'])
    for k in ('last', 'center', 'next', 'zx1', 'zx2', 'lzx'):
        if nm[k] not in df_s.columns:
            raise Violation('missing-sample-column', nm[k])
        v = df_s[nm[k]].values
        if v.dtype.kind not in 'iu' or v.min() < 0 or v.max() >= len(x):
            raise Violation('bad-sample-column', nm[k])
    exp = expected_shape(x, df_s, case['center'], case['fs'], tuple(case['f_range']), band_n)
    for col in pipeline.SHAPE_COLS:
        if col not in df.columns:
            raise Violation('missing-column', col)
        got = df[col].values.astype(float)
        want = np.asarray(exp[col], dtype=float)
        if col in EXACT:
            if not ref.same_float(got, want):
                raise Violation('definition:' + col, '%s (centre=%s)' % (ref.first_diff(got, want), case['center']))
        elif not ref.close_float(got, want, rtol=1e-12, atol=1e-12):
            raise Violation('definition:' + col, '%s (centre=%s)' % (ref.first_diff(got, want), case['center']))
    per = df['period'].values
    if not np.array_equal(per, df['time_rise'].values + df['time_decay'].values):
        raise Violation('period-not-rise-plus-decay', '')
    rd = df['time_rdsym'].values.astype(float)
    if not (np.all(rd > 0) and np.all(rd < 1)):
        raise Violation('rdsym-outside-open-unit-interval', str(rd[(rd <= 0) | (rd >= 1)][:3]))
    pt = df['time_ptsym'].values.astype(float)
    if not (np.all(pt >= 0) and np.all(pt <= 1)):
        raise Violation('ptsym-outside-unit-interval', str(pt[~((pt >= 0) & (pt <= 1))][:3]))
    asym = np.any((df['time_rise'].values != df['time_decay'].values) & (df['volt_rise'].values != df['volt_decay'].values))
    rec.label('asymmetric' if asym else 'symmetric', 'rows>=3' if len(df) >= 3 else 'rows<3')
    rec.nontrivial(len(df) >= 3 and bool(asym))


def check_helpers(case, rec):
    """compute_durations / compute_extrema_voltage / compute_symmetry are row-wise definitions: they must hold on any
    selection of rows of a cyclepoint table (bursting cycles only, every n-th cycle, ...)"""
    from bycycle.features import compute_cyclepoints
    from bycycle.features.shape import compute_durations, compute_extrema_voltage, compute_symmetry
    import warnings
    x = gen.render_signal(case['sig'])
    pipeline.expected_cycles(dict(case, center='peak'), x)
    with warnings.catch_warnings():
        warnings.simplefilter('ignore')
        pts = guarded(compute_cyclepoints, x.copy(), case['fs'], tuple(case['f_range']), **(gen.copy_json(case.get('fek')) or {}))
    rows = [i for i in range(len(pts)) if not ((case['drop'] >> (i % 14)) & 1)] or [0]
    sub = pts.iloc[rows]
    if case['reset']:
        sub = sub.reset_index(drop=True)
    keep = sub.copy(deep=True)
    sym = guarded(compute_symmetry, sub, x.copy())
    period, time_peak, time_trough = guarded(compute_durations, sub)
    volt_peak, volt_trough = guarded(compute_extrema_voltage, sub, x.copy())
    if case.get('pass_durations'):
        # the documented optional arguments: durations computed beforehand, handed over as plain arrays / lists / Series
        import pandas as pd
        as_ = {1: lambda v: np.asarray(v), 2: lambda v: list(np.asarray(v)), 3: lambda v: pd.Series(np.asarray(v), index=sub.index)}[case['pass_durations']]
        sym = guarded(compute_symmetry, sub, x.copy(), period=as_(period), time_peak=as_(time_peak), time_trough=as_(time_trough))
        for col in ('time_rdsym', 'time_ptsym', 'time_rise'):
            if len(sym[col]) != len(sub):
                raise Violation('helpers:%s-length' % col, '%d values for %d rows (durations passed as %s)' % (len(sym[col]), len(sub), type(as_(period)).__name__))
        rec.label('durations-passed:%s' % type(as_(period)).__name__)
    if not ref.frames_equal(sub, keep)[0]:
        raise Violation('helpers:input-modified', '')
    exp = expected_shape(x, sub, 'peak', case['fs'], tuple(case['f_range']))
    got = dict(sym, period=period, time_peak=time_peak, time_trough=time_trough, volt_peak=volt_peak, volt_trough=volt_trough)
    for col in ['period', 'time_rise', 'time_decay', 'time_peak', 'time_trough', 'volt_peak', 'volt_trough', 'volt_rise', 'volt_decay',
                'volt_amp', 'time_rdsym', 'time_ptsym']:
        a = np.asarray(got[col], dtype=float)
        b = np.asarray(exp[col], dtype=float)
        if not ref.close_float(a, b, rtol=1e-12, atol=1e-12):
            raise Violation('helpers:' + col, '%s (rows kept %d of %d)' % (ref.first_diff(a, b), len(rows), len(pts)))
    rec.label('row-subset' if len(rows) < len(pts) else 'all-rows', 'index-reset' if case['reset'] else 'index-kept')
    rec.nontrivial(len(rows) < len(pts) and len(rows) >= 2)


@st.composite
def strat_helpers(draw, tier):
    case = draw(gen.st_analysis_case(methods=('cycles',), thresholds=False))
    case['drop'] = draw(st.one_of(st.just(0), st.integers(1, 2 ** 14 - 1), st.integers(1, 2 ** 14 - 1)))
    case['reset'] = draw(st.booleans())
    case['pass_durations'] = draw(st.sampled_from([0, 0, 1, 1, 3]))       # '1d array' is the documented type: arrays and Series, no lists
    return case


PARTS = [Part('definitions', check, strategy=strategy, budget={'quick': 1200, 'thorough': 40000},
              shards={'quick': 16, 'thorough': 16}),
         Part('row-wise-helpers', check_helpers, strategy=strat_helpers, budget={'quick': 500, 'thorough': 15000},
              shards={'quick': 8, 'thorough': 16})]
