"""C17 - Interpolated phase is anchored at cyclepoints and monotone between them."""
import itertools

import numpy as np
from hypothesis import strategies as st

import gen
import ref
from harness import Part, Violation, Discard, guarded
from bycycle.cyclepoints import find_extrema, find_zerox, extrema_interpolated_phase

ID = 'C17'
TITLE = 'Interpolated phase is anchored at cyclepoints and monotone between them'
REGISTER = True
TECHNIQUE = ('exhaustive enumeration of every alternating peak/decay/trough/rise placement on short arrays plus Hypothesis-generated '
             'cyclepoints from find_extrema / find_zerox (signals cut so that the last extremum sits on the last samples), against a '
             'validity predicate (anchor values, range, finiteness exactly on the span, monotone except the wrap at troughs); midpoints for all, some or no flanks; enumerated very long arrays (beyond 2^20 and 2^24 samples, flanks of 1e5..4e5 samples); atheris/libFuzzer part in the thorough tier')
LEVEL_TEXT = ('Exhaustive for arrays of length <= 14 (quick) / <= 19 (thorough): every alternating extremum sequence with gaps >= 2, both '
              'start kinds, midpoints omitted / supplied at every position of [start, end) / plus an optional leading or trailing '
              'midpoint; random search with real pipelines (900 quick, 40k thorough). Complete below the bound, sampling above it.')
RULE = ('enum: arrays of length n; extrema = every strictly increasing index sequence with >= 1 peak and >= 1 trough, gaps >= 2, '
        'alternating from either kind; midpoints: omitted, or one per flank at every position in [start, end) (cartesian product), and '
        'with midpoints additionally an optional leading midpoint before the first extremum and trailing midpoint after the last one. '
        'pipeline: find_extrema (first_extrema in {peak, trough, None}, boundary in {0, 1, 2, 5}) + find_zerox on generated signals '
        'cut so that the last extremum is 0..3 samples from the end; rises/decays supplied, omitted, or only one of them; thorough only: '
        'atheris / libFuzzer coverage-guided fuzzing (bytes -> placement on arrays up to length 64, empty corpus). Oracle: one '
        'value per sample; 0 at peaks; |pi| at troughs; -pi/2 at rises and +pi/2 at decays not coinciding with an extremum; finite values '
        'within [-pi, pi]; finite exactly on [first cyclepoint, last cyclepoint]; diff >= -1e-12 inside the span except across the '
        'sample pair ending at a trough. Non-trivial: last cyclepoint within 2 samples of the end, or a peak as last cyclepoint, or a '
        'midpoint coinciding with an extremum, or a leading/trailing midpoint. Discarded: extrema closer than 2 samples (outside the '
        'stated domain). Distinct = distinct placement.')
ASSUMPTIONS = ['consecutive extrema are at least two samples apart (stated domain)',
               'each supplied midpoint lies in [start extremum, end extremum) of its flank (what find_zerox produces)']
TRUSTED = ['numpy']

PI = np.pi
TOL = 1e-12


VARIANTS = [('float64', 'asc')] * 5 + [('float32', 'asc'), ('int16', 'asc'), ('int64', 'rev'), ('float64', 'rev'), ('float64', 'perm'), ('list', 'asc')]


def verify(n, peaks, troughs, rises, decays, rec, note='', variant=0):
    # only len(sig) is documented to matter; the cyclepoints are a set, so the order inside each array must not matter
    dtype, order = VARIANTS[variant % len(VARIANTS)]
    sig = [0] * n if dtype == 'list' else np.zeros(n, dtype=dtype)

    def arr(v):
        v = list(v)
        if order == 'rev':
            v = v[::-1]
        elif order == 'perm':
            v = v[1::2] + v[0::2]
        return np.array(v, dtype=int)
    P, T = arr(peaks), arr(troughs)
    R = None if rises is None else arr(rises)
    D = None if decays is None else arr(decays)
    rec.label('sig:' + dtype, 'order:' + order)
    pha = guarded(extrema_interpolated_phase, sig, P.copy(), T.copy(), rises=None if R is None else R.copy(),
                  decays=None if D is None else D.copy())
    pha = np.asarray(pha, dtype=float)
    where = 'n=%d peaks=%s troughs=%s rises=%s decays=%s %s' % (n, list(peaks), list(troughs), None if rises is None else list(rises),
                                                              None if decays is None else list(decays), note)
    if pha.shape != (n,):
        raise Violation('length', '%s -> shape %s' % (where, pha.shape))
    cps = list(peaks) + list(troughs) + (list(rises) if rises is not None else []) + (list(decays) if decays is not None else [])
    first, last = min(cps), max(cps)
    inside = pha[first:last + 1]
    if np.isnan(inside).any():
        raise Violation('nan-inside-span', '%s -> %s' % (where, np.round(pha, 3).tolist()))
    if not np.isnan(pha[:first]).all() or not np.isnan(pha[last + 1:]).all():
        raise Violation('finite-outside-span', '%s -> %s' % (where, np.round(pha, 3).tolist()))
    if np.any(inside < -PI - TOL) or np.any(inside > PI + TOL):
        raise Violation('outside-[-pi,pi]', '%s -> %s' % (where, np.round(pha, 3).tolist()))
    ext = set(peaks) | set(troughs)
    for p in peaks:
        if abs(pha[p]) > TOL:
            raise Violation('peak-not-0', '%s -> pha[%d]=%r' % (where, p, pha[p]))
    for t in troughs:
        if abs(abs(pha[t]) - PI) > TOL:
            raise Violation('trough-not-pi', '%s -> pha[%d]=%r' % (where, t, pha[t]))
    if rises is not None:
        for r in rises:
            if r not in ext and abs(pha[r] + PI / 2) > TOL:
                raise Violation('rise-not-minus-half-pi', '%s -> pha[%d]=%r' % (where, r, pha[r]))
    if decays is not None:
        for d in decays:
            if d not in ext and abs(pha[d] - PI / 2) > TOL:
                raise Violation('decay-not-half-pi', '%s -> pha[%d]=%r' % (where, d, pha[d]))
    dif = np.diff(inside)
    tset = set(troughs)
    for i in np.flatnonzero(dif < -TOL):
        if (first + int(i) + 1) not in tset:
            raise Violation('decrease-not-at-a-trough', '%s -> step %d->%d: %r -> %r' % (
                where, first + i, first + i + 1, inside[i], inside[i + 1]))
    mids = (list(rises) if rises is not None else []) + (list(decays) if decays is not None else [])
    coincide = any(m in ext for m in mids)
    lead_trail = bool(mids) and (min(mids) < min(ext) or max(mids) > max(ext))
    near_end = last >= n - 3
    peak_last = max(ext) in set(peaks)
    rec.label('near-end' if near_end else 'far-from-end', 'last-ext:peak' if peak_last else 'last-ext:trough',
              'mid-coincides' if coincide else 'no-coincidence', 'midpoints' if mids else 'no-midpoints',
              'lead/trail-midpoint' if lead_trail else 'no-lead/trail')
    rec.nontrivial(near_end or peak_last or coincide or lead_trail)


def check_enum(case, rec):
    verify(case['n'], case['peaks'], case['troughs'], case['rises'], case['decays'], rec, variant=case.get('variant', 0))


def extrema_sequences(n):
    """strictly increasing index sequences over range(n) with gaps >= 2 and length >= 2"""
    def rec_(start, acc):
        if len(acc) >= 2:
            yield tuple(acc)
        for i in range(start, n):
            yield from rec_(i + 2, acc + [i])
    yield from rec_(0, [])


def enum(tier, shard, nshards):
    nmax = 14 if tier == 'quick' else 19
    count = 0
    for n in range(3, nmax + 1):
        for seq in extrema_sequences(n):
            for start in ('P', 'T'):
                count += 1
                if count % nshards != shard:
                    continue
                kinds = [start if i % 2 == 0 else ('T' if start == 'P' else 'P') for i in range(len(seq))]
                peaks = [i for i, k in zip(seq, kinds) if k == 'P']
                troughs = [i for i, k in zip(seq, kinds) if k == 'T']
                yield {'n': n, 'peaks': peaks, 'troughs': troughs, 'rises': None, 'decays': None, 'variant': count}
                flanks = list(zip(seq[:-1], seq[1:], kinds[:-1]))
                # leading / trailing midpoints only on the shorter arrays (keeps the product bounded)
                lead_opts = [None] + (list(range(0, seq[0])) if n <= nmax - 2 else [])
                trail_opts = [None] + (list(range(seq[-1] + 1, n)) if n <= nmax - 2 else [])
                for mids in itertools.product(*[range(a, b) for a, b, _ in flanks]):
                    for lead in lead_opts:
                        for trail in trail_opts:
                            rises, decays = [], []
                            if lead is not None:
                                (decays if kinds[0] == 'T' else rises).append(lead)
                            for m, (a, b, k) in zip(mids, flanks):
                                (decays if k == 'P' else rises).append(m)
                            if trail is not None:
                                (decays if kinds[-1] == 'P' else rises).append(trail)
                            yield {'n': n, 'peaks': peaks, 'troughs': troughs, 'rises': rises, 'decays': decays,
                                   'variant': count + len(rises) + (lead or 0) + (trail or 0)}
                            if lead is None and trail is None and len(rises) + len(decays) >= 3:
                                # midpoints supplied for some flanks only (e.g. kept for the bursting cycles): "when supplied"
                                yield {'n': n, 'peaks': peaks, 'troughs': troughs, 'rises': rises[::2], 'decays': decays[1::2], 'variant': count}
                                yield {'n': n, 'peaks': peaks, 'troughs': troughs, 'rises': rises[1:], 'decays': decays[:-1], 'variant': count}


def check_pipeline(case, rec):
    x = gen.render_signal(case['sig'])
    kwargs = dict(boundary=case['boundary'], first_extrema=case['first'])
    if case['fk'] is not None:
        kwargs['filter_kwargs'] = gen.copy_json(case['fk'])
    try:
        peaks, troughs = find_extrema(x, case['fs'], tuple(case['f_range']), **kwargs)
    except Exception:
        raise Discard('find_extrema raised (C02 territory)')
    if len(peaks) < 1 or len(troughs) < 1:
        raise Discard('no extrema')
    # cut the signal so that the last extremum sits `tail` samples before the end
    last = int(max(peaks[-1], troughs[-1]))
    n = min(len(x), last + 1 + case['tail'])
    x = x[:n]
    ev = np.sort(np.concatenate([peaks, troughs]))
    if np.any(np.diff(ev) < 2):
        raise Discard('two extrema fewer than two samples apart (outside the stated domain)')
    try:
        rises, decays = find_zerox(x, peaks, troughs)
    except Exception:
        raise Discard('find_zerox raised (C03 territory)')
    mode = case['mids']
    R = list(map(int, rises)) if mode in ('both', 'rises', 'some') else None
    D = list(map(int, decays)) if mode in ('both', 'decays', 'some') else None
    if mode == 'some':
        R, D = R[::2], D[1::3]        # midpoints kept for some flanks only
    rec.label(*gen.signal_classes(case['sig']))
    rec.label('mids:' + mode, 'first:%s' % case['first'], 'tail:%d' % case['tail'])
    verify(n, list(map(int, peaks)), list(map(int, troughs)), R, D, rec, note='(pipeline)', variant=case.get('variant', 0))


@st.composite
def strat_pipeline(draw, tier):
    band = draw(gen.st_band())
    fk = draw(gen.st_filter_kwargs(band))
    fs, (f_lo, f_hi) = band['fs'], band['f_range']
    p_lo = fs / f_lo
    n_min = int(max(gen.filt_len_of(band, fk) + 8, 6 * p_lo))
    n = draw(st.integers(n_min, max(n_min + 64, int(min(1500, 20 * p_lo)))))
    sig = draw(gen.st_signal(band, n, tie_rich=draw(st.booleans())))
    return {'fs': fs, 'f_range': [f_lo, f_hi], 'sig': sig, 'fk': fk, 'boundary': draw(st.sampled_from([0, 0, 1, 2, 5])),
            'first': draw(st.sampled_from(['peak', 'trough', None])), 'tail': draw(st.sampled_from([0, 0, 1, 1, 2, 3, 50])),
            'mids': draw(st.sampled_from(['both', 'both', 'none', 'rises', 'decays', 'some'])), 'variant': draw(st.integers(0, 10))}


def decode(fdp):
    n = fdp.ConsumeIntInRange(3, 64)
    pos, seq = fdp.ConsumeIntInRange(0, 3), []
    while pos < n and len(seq) < 16:
        seq.append(pos)
        pos += fdp.ConsumeIntInRange(2, 7)
    if len(seq) < 2:
        seq = [0, n - 1]
    start = 'P' if fdp.ConsumeBool() else 'T'
    kinds = [start if i % 2 == 0 else ('T' if start == 'P' else 'P') for i in range(len(seq))]
    peaks = [i for i, k in zip(seq, kinds) if k == 'P']
    troughs = [i for i, k in zip(seq, kinds) if k == 'T']
    mode = fdp.ConsumeIntInRange(0, 3)
    if mode == 0:
        return {'n': n, 'peaks': peaks, 'troughs': troughs, 'rises': None, 'decays': None, 'variant': fdp.ConsumeIntInRange(0, 10)}
    rises, decays = [], []
    if mode == 3 and seq[0] > 0:
        (decays if kinds[0] == 'T' else rises).append(fdp.ConsumeIntInRange(0, seq[0] - 1))
    for a, b, k in zip(seq[:-1], seq[1:], kinds[:-1]):
        (decays if k == 'P' else rises).append(fdp.ConsumeIntInRange(a, b - 1))
    if mode == 3 and seq[-1] < n - 1:
        (decays if kinds[-1] == 'P' else rises).append(fdp.ConsumeIntInRange(seq[-1] + 1, n - 1))
    if mode == 2:
        return {'n': n, 'peaks': peaks, 'troughs': troughs, 'rises': rises if fdp.ConsumeBool() else None, 'decays': decays}
    return {'n': n, 'peaks': peaks, 'troughs': troughs, 'rises': rises, 'decays': decays, 'variant': fdp.ConsumeIntInRange(0, 10)}


def enum_long(tier, shard, nshards):
    """a few recordings longer than 2**20 samples (block-wise implementations have seams there)"""
    sizes = [2 ** 20 + 5000, 2 ** 20 + 777] if tier == 'quick' else [2 ** 20 + 5000, 2 ** 20 + 777, 2 ** 21 + 300, 3 * 2 ** 20 + 11]
    for i, n in enumerate(sizes):
        if i % nshards != shard:
            continue
        period = [200, 173][i % 2]
        # the samples on either side of the last power-of-two boundary inside the array lie in the middle of a decaying flank
        # (where the two interpolation branches differ), for the later sizes in the middle of a rising flank
        seam = 2 ** (n.bit_length() - 1)
        off = (seam - 1 - (3 * period // 8 if i < 2 else 7 * period // 8)) % period
        peaks = list(range(off, n, period))
        troughs = [p + period // 2 for p in peaks if p + period // 2 < n]
        mode = i % 3
        rises = [t + period // 4 for t in troughs if t + period // 4 < n and t + period // 4 < peaks[-1]] if mode != 1 else None
        decays = [p + period // 4 for p in peaks if p + period // 4 < max(troughs)] if mode != 2 else None
        yield {'n': n, 'peaks': peaks, 'troughs': troughs, 'rises': rises, 'decays': decays, 'variant': 0, 'long': True}
    # very slow rhythms at high sampling rates: single flanks of 1e5 .. 4e5 samples (phase steps of a few 1e-6 rad per sample)
    slow = [(2 ** 20 + 999, 260000, 2), (900001, 420000, 1)] if tier == 'quick' else [(2 ** 20 + 999, 260000, 2), (900001, 420000, 1), (2 ** 21, 800000, 0), (1500000, 130000, 2)]
    for i, (n, period, mode) in enumerate(slow):
        if i % nshards != shard:
            continue
        peaks = list(range(17, n, period))
        troughs = [p + period // 2 for p in peaks if p + period // 2 < n]
        rises = [t + period // 4 for t in troughs if t + period // 4 < peaks[-1]] if mode != 1 else None
        decays = [p + period // 4 for p in peaks if p + period // 4 < max(troughs)] if mode != 2 else None
        yield {'n': n, 'peaks': peaks, 'troughs': troughs, 'rises': rises, 'decays': decays, 'variant': 0, 'long': True}
    if shard == nshards - 1:
        # beyond 2**24 samples (single-precision sample counters stop being exact there)
        n, period = 2 ** 24 + 3000, 500
        peaks = list(range(2 ** 24 - 20 * period + 3, n, period))
        troughs = [p + period // 2 for p in peaks if p + period // 2 < n]
        yield {'n': n, 'peaks': peaks, 'troughs': troughs, 'rises': None, 'decays': [p + period // 4 for p in peaks if p + period // 4 < max(troughs)], 'variant': 0, 'long': True}


PARTS = [
    Part('very-long', check_enum, enum=enum_long, shards={'quick': 2, 'thorough': 4}, time_cap={'quick': 200, 'thorough': 1500}),
    Part('exhaustive', check_enum, enum=enum, shards={'quick': 16, 'thorough': 16}, exhaustive=True,
         time_cap={'quick': 200, 'thorough': 3000}),
    Part('pipeline', check_pipeline, strategy=strat_pipeline, budget={'quick': 900, 'thorough': 40000},
         shards={'quick': 6, 'thorough': 16}),
    Part('fuzz-atheris', check_enum, decode=decode, budget={'quick': 0, 'thorough': 3000000}, shards={'quick': 1, 'thorough': 12},
         tiers=('thorough',), time_cap={'quick': 60, 'thorough': 1500}),
]
