"""C05 - Burst features equal their documented definitions."""
import numpy as np
import pandas as pd
from hypothesis import strategies as st

import gen
import ref
import pipeline
from harness import Part, Violation, Discard, guarded
from bycycle.features.burst import (compute_amp_fraction, compute_amp_consistency, compute_period_consistency,
                                    compute_monotonicity)

ID = 'C05'
TITLE = 'Burst features equal their documented definitions'
REGISTER = True
TECHNIQUE = ('Hypothesis property-based testing, differential against reference implementations written from the definitions '
             '(scipy average ranks; consistency from the global alternating flank sequence recomputed from the signal; '
             'per-flank strict step fractions), on tables from generated signals and on synthetic tables with ties, zeros, '
             'negatives and all three directions; enumerated tables of several thousand cycles in and out of time order; the burst features of a finished table re-evaluated on another signal')
LEVEL_TEXT = ('Generated-input search: 800 pipeline cases + 4k synthetic tables + 3k raw monotonicity cases (quick), '
              '30k + 200k + 100k (thorough). Exact (bit-level) comparison; rows whose consistency involves a 0/0 pair are '
              'counted and skipped (the statement leaves them undefined). Sampling, not exhaustive.')
RULE = ('pipeline: C01 signal domain with tie-rich signals over-weighted, burst_method=cycles, both centrings; the four columns '
        'are compared with references computed from the ORIGINAL signal and the returned cyclepoints. synthetic: tables with '
        'volt_rise/volt_decay from small grids (ties, zeros, negatives), integer periods, both centrings, direction in '
        '{both,next,last} fed to compute_amp_fraction/_amp_consistency/_period_consistency. mono: raw integer signals with '
        'drawn trough/peak/trough index triples fed to compute_monotonicity. Range claim [0,1] asserted when the flank voltages '
        'involved are positive. Non-trivial: rank ties in volt_amp, or a plateau step inside a flank, or the minimum of the '
        'three pairs attained at a neighbour pair (pairing matters), or direction != both. Distinct = distinct case.')
ASSUMPTIONS = ['amp_consistency rows in which one of the selected min/max ratios is 0/0 (or, with flank voltages recomputed from the signal, x/0 with a signed zero) are undefined by the statement: counted, skipped',
               'tables have >= 1 row']
TRUSTED = ['numpy', 'pandas', 'scipy.stats.rankdata']


def cmp_exact(name, got, want, skip=None):
    got = np.asarray(got, dtype=float)
    want = np.asarray(want, dtype=float)
    if got.shape != want.shape:
        raise Violation(name + ':shape', '%s vs %s' % (got.shape, want.shape))
    ok = (got == want) | (np.isnan(got) & np.isnan(want))
    if skip is not None:
        ok = ok | skip
    if not ok.all():
        i = int(np.flatnonzero(~ok)[0])
        raise Violation(name, 'row %d: got %r, definition gives %r (%d rows differ)' % (i, got[i], want[i], int((~ok).sum())))


def neighbour_pair_decides(F, n):
    for i in range(1, n - 1):
        cur = ref.ratio(F[2 * i], F[2 * i + 1])
        la = ref.ratio(F[2 * i - 1], F[2 * i])
        nx = ref.ratio(F[2 * i + 1], F[2 * i + 2])
        if not np.isnan([cur, la, nx]).any() and min(la, nx) < cur and la != nx:
            return True
    return False


def check_pipeline(case, rec):
    x = gen.render_signal(case['sig'])
    pipeline.expected_cycles(case, x)
    if case.get('via_rename') and case['center'] == 'trough':
        # the documented manual route: shape features of -sig peak-centred, renamed to trough-centring, then the burst features
        import warnings
        from bycycle.features import compute_shape_features, compute_burst_features
        from bycycle.utils import rename_extrema_df
        with warnings.catch_warnings():
            warnings.simplefilter('ignore')
            shp = guarded(rename_extrema_df, 'trough', guarded(compute_shape_features, -x, case['fs'], tuple(case['f_range']), center_extrema='peak',
                                                           find_extrema_kwargs=gen.copy_json(case.get('fek'))))
            bf = guarded(compute_burst_features, shp, x.copy(), burst_method='cycles')
        df = pd.concat((bf, shp), axis=1)
        rec.label('via-rename')
    else:
        df = pipeline.analyse(case, x, return_samples=True)
    n = len(df)
    rec.label(*gen.case_labels(case))
    ext, F = ref.flank_sequence(x, df)
    # the table's voltage columns must be the flank sequence (C04), otherwise the comparison below is meaningless
    exp_ac, undef = ref.ref_amp_consistency_from_flanks(F, n, 'both', inf_undefined=True)
    cmp_exact('amp_consistency', df['amp_consistency'].values, exp_ac, skip=undef)
    cmp_exact('period_consistency', df['period_consistency'].values, ref.ref_period_consistency(np.diff(ext[0::2])))
    cmp_exact('amp_fraction', df['amp_fraction'].values, ref.ref_amp_fraction((F[0::2] + F[1::2]) / 2))
    cmp_exact('monotonicity', df['monotonicity'].values, ref.ref_monotonicity(x, df))
    for col in ('amp_consistency', 'period_consistency'):
        v = df[col].values.astype(float)
        if n and not (np.isnan(v[0]) and np.isnan(v[-1])):
            raise Violation(col + ':first-last-not-nan', '%r %r' % (v[0], v[-1]))
    ranges(df, F, n)
    if case.get('re_evaluate') and n >= 3:
        # cycles located on one version of the recording and re-evaluated on another (a smoothed copy): the burst features of the
        # finished table, asked for again with the other signal, follow that signal
        from bycycle.features import compute_burst_features
        x2 = np.convolve(x, np.ones(5) / 5.0, mode='same') + 0.25 * x
        keep_tbl = df.copy(deep=True)
        bf2 = guarded(compute_burst_features, df, x2, burst_method='cycles')
        cmp_exact('monotonicity[re-evaluated on another signal]', bf2['monotonicity'].values, ref.ref_monotonicity(x2, df))
        cmp_exact('period_consistency[re-evaluated]', bf2['period_consistency'].values, df['period_consistency'].values)
        ok_, why_ = ref.frames_equal(df, keep_tbl)
        if not ok_:
            raise Violation('table-modified-by-compute_burst_features', why_)
        rec.label('re-evaluated-on-another-signal')
    va = (F[0::2] + F[1::2]) / 2
    ties = len(np.unique(va)) < len(va)
    plateau = False
    for a, b in zip(ext[:-1], ext[1:]):
        if np.any(np.diff(x[a:b + 1]) == 0):
            plateau = True
            break
    pairing = neighbour_pair_decides(F, n)
    rec.label('rank-ties' if ties else 'no-rank-ties', 'plateau-step' if plateau else 'no-plateau',
              'neighbour-pair-decides' if pairing else 'own-pair-decides', 'undefined-rows' if undef.any() else 'all-defined')
    rec.nontrivial(n >= 3 and (ties or plateau or pairing))


def ranges(df, F, n):
    for col in ('amp_fraction', 'period_consistency', 'monotonicity'):
        v = df[col].values.astype(float)
        v = v[~np.isnan(v)]
        if np.any(v < 0) or np.any(v > 1):
            raise Violation(col + ':outside-unit-interval', str(v[(v < 0) | (v > 1)][:3]))
    ac = df['amp_consistency'].values.astype(float)
    for i in range(1, n - 1):
        if np.all(F[2 * i - 1:2 * i + 3] > 0) and not (0 <= ac[i] <= 1):
            raise Violation('amp_consistency:outside-unit-interval', 'row %d: %r with positive flanks %s' % (i, ac[i], F[2 * i - 1:2 * i + 3]))


def build_table(case):
    n = len(case['rise'])
    if case.get('int_cols'):
        d = {'volt_rise': np.array(case['rise'], dtype=np.int64), 'volt_decay': np.array(case['decay'], dtype=np.int64),
             'period': np.array(case['period'], dtype=int)}
        d['volt_amp'] = np.array(case['amp'], dtype=float) if case['amp'] is not None else (d['volt_rise'] + d['volt_decay']) / 2
        d['sample_peak' if case['center'] == 'peak' else 'sample_trough'] = np.arange(n) * 10 + 5
        return pd.DataFrame(d)
    d = {'volt_rise': np.array(case['rise'], dtype=float) * case['scale'],
         'volt_decay': np.array(case['decay'], dtype=float) * case['scale'],
         'period': np.array(case['period'], dtype=int)}
    d['volt_amp'] = np.array(case['amp'], dtype=float) if case['amp'] is not None else (d['volt_rise'] + d['volt_decay']) / 2
    if case.get('period_unit'):
        # periods converted to another unit by the user (ms, s): ratios of neighbouring periods are unit free
        d['period'] = d['period'] * {1: 1000.0 / 512, 2: 1.0 / 500, 3: 0.37}[case['period_unit']]
    d['sample_peak' if case['center'] == 'peak' else 'sample_trough'] = np.arange(n) * 10 + 5
    return pd.DataFrame(d)


def relabel(df, kind):
    n = len(df)
    if kind == 'offset':
        df.index = pd.RangeIndex(4, 4 + n)
    elif kind == 'repeated':                       # stacked tables (pd.concat without ignore_index)
        h = (n + 1) // 2
        df.index = pd.Index(list(range(h)) + list(range(n - h)))
    return df


def check_synth(case, rec):
    df = relabel(build_table(case), case.get('index', 'range'))
    n = len(df)
    direction = case['direction']
    keep = df.copy()
    got_ac = guarded(compute_amp_consistency, df, direction=direction)
    got_pc = guarded(compute_period_consistency, df, direction=direction)
    got_af = guarded(compute_amp_fraction, df)
    if not df.equals(keep):
        raise Violation('input-table-mutated', '')
    exp_ac, undef = ref.ref_amp_consistency_table(df, direction)
    cmp_exact('amp_consistency[%s]' % direction, got_ac, exp_ac, skip=undef)
    cmp_exact('period_consistency[%s]' % direction, got_pc, ref.ref_period_consistency(df['period'].values, direction))
    cmp_exact('amp_fraction', np.asarray(got_af), ref.ref_amp_fraction(df['volt_amp'].values))
    c = case['center']
    r, d = df['volt_rise'].values, df['volt_decay'].values
    F = np.zeros(2 * n)
    if c == 'peak':
        F[0::2], F[1::2] = r, d
    else:
        F[0::2], F[1::2] = d, r
    if direction == 'both':
        tmp = pd.DataFrame({'amp_fraction': np.asarray(got_af, dtype=float), 'period_consistency': got_pc,
                            'monotonicity': np.zeros(n), 'amp_consistency': got_ac})
        ranges(tmp, F, n)
    ties = len(np.unique(df['volt_amp'].values)) < n
    pairing = neighbour_pair_decides(F, n)
    rec.label('center:' + c, 'dir:' + direction, 'int-columns' if case.get('int_cols') else 'float-columns', 'rank-ties' if ties else 'no-rank-ties',
              'neighbour-pair-decides' if pairing else 'own-pair-decides', 'undefined-rows' if undef.any() else 'all-defined',
              'negatives' if (F < 0).any() else 'non-negative', 'n<3' if n < 3 else 'n>=3')
    rec.nontrivial(n >= 3 and (ties or pairing or direction != 'both'))


def check_mono(case, rec):
    x = np.array(case['x'], dtype=float)
    idx = case['idx']           # strictly increasing, odd length >= 3: side centre side centre ... side
    c = case['center']
    nm = ref.names(c)
    last, cen, nxt = idx[0:-2:2], idx[1::2], idx[2::2]
    df = pd.DataFrame({nm['last']: last, nm['center']: cen, nm['next']: nxt})
    keep_rows = [i for i in range(len(df)) if not (case.get('drop_rows') and (case['drop_rows'] >> (i % 16)) & 1)] or [0]
    if len(keep_rows) < len(df):
        df = df.iloc[keep_rows]          # a row subset (bursting cycles only, artefacts masked): rows are no longer contiguous in time
        if case.get('reset_index', True):
            df = df.reset_index(drop=True)
    df = relabel(df, case.get('index', 'range'))
    got = guarded(compute_monotonicity, df, x.copy())
    cmp_exact('monotonicity', got, ref.ref_monotonicity(x, df))
    got = np.asarray(got, dtype=float)
    if np.any(got < 0) or np.any(got > 1):
        raise Violation('monotonicity:outside-unit-interval', str(got))
    plateau = any(np.any(np.diff(x[a:b + 1]) == 0) for a, b in zip(idx[:-1], idx[1:]))
    rec.label('center:' + c, 'plateau-step' if plateau else 'no-plateau', 'row-subset' if len(keep_rows) < len(cen) else 'all-rows')
    rec.nontrivial(plateau or len(keep_rows) < len(cen))


@st.composite
def strat_pipeline(draw, tier):
    case = draw(gen.st_analysis_case(methods=('cycles',), tie_rich=draw(st.booleans())))
    case['return_samples'] = True
    case['via_rename'] = draw(st.integers(0, 2)) == 0
    case['re_evaluate'] = draw(st.integers(0, 2)) == 0
    return case


@st.composite
def strat_synth(draw, tier):
    n = draw(st.integers(1, 30))
    flavour = draw(st.sampled_from(['positive', 'positive', 'zeros', 'negatives']))
    pool = {'positive': [1, 1, 2, 2, 3, 4, 6, 8], 'zeros': [0, 1, 1, 2, 2, 3, 4, 6, 8],
            'negatives': [-2, -1, 0, 1, 1, 2, 2, 3, 4, 6, 8]}[flavour]
    vals = st.sampled_from(pool)
    rise = draw(st.lists(vals, min_size=n, max_size=n))
    decay = draw(st.lists(vals, min_size=n, max_size=n))
    period = draw(st.lists(st.integers(1, 40), min_size=n, max_size=n))
    amp = draw(st.one_of(st.none(), st.lists(st.integers(0, 5).map(float), min_size=n, max_size=n)))
    return {'rise': rise, 'decay': decay, 'period': period, 'amp': amp, 'scale': draw(st.sampled_from([1.0, 0.5, 0.1, 3.0])),
            'center': draw(st.sampled_from(['peak', 'trough'])), 'direction': draw(st.sampled_from(['both', 'both', 'next', 'last'])),
            'int_cols': draw(st.integers(0, 3)) == 0, 'index': draw(st.sampled_from(['range', 'range', 'offset', 'repeated'])),
            'period_unit': draw(st.sampled_from([0, 0, 0, 1, 2, 3]))}


@st.composite
def strat_mono(draw, tier):
    n = draw(st.integers(3, 50))
    x = draw(st.lists(st.integers(-3, 3), min_size=n, max_size=n))
    k = draw(st.integers(1, max(1, (n - 1) // 2)))
    idx = sorted(draw(st.sets(st.integers(0, n - 1), min_size=2 * k + 1, max_size=2 * k + 1)))
    return {'x': x, 'idx': idx, 'center': draw(st.sampled_from(['peak', 'trough'])),
            'drop_rows': draw(st.one_of(st.just(0), st.just(0), st.integers(1, 2 ** 16 - 1))), 'reset_index': draw(st.booleans()),
            'index': draw(st.sampled_from(['range', 'range', 'offset', 'repeated']))}


def enum_large(tier, shard, nshards):
    """tables of several thousand cycles (block-wise implementations have seams), in time order and out of it"""
    orders = ['time', 'reversed', 'two-halves-interleaved', 'ranked'] if tier == 'quick' else ['time', 'reversed', 'two-halves-interleaved', 'ranked', 'rotated', 'time']
    for i, order in enumerate(orders):
        if i % nshards != shard:
            continue
        yield {'rows': [4500, 9000, 5200, 4100, 12000, 70000][i], 'order': order, 'center': ['peak', 'trough'][i % 2], 'seed': i}


def check_large(case, rec):
    m = case['rows']
    k = np.arange(2 * m + 1)
    gaps = 2 + (k * 7 + case['seed']) % 4                       # 2..5 samples between neighbouring extrema
    idx = np.concatenate([[3], 3 + np.cumsum(gaps)])[:2 * m + 1]
    n = int(idx[-1]) + 4
    t = np.arange(n)
    x = np.round(3 * np.sin(t * 0.9) + 2 * np.sin(t * 0.37 + 1) + ((t * 2654435761) % 7 - 3) * 0.5)   # integer-valued, tie-rich
    nm = ref.names(case['center'])
    df = pd.DataFrame({nm['last']: idx[0:-2:2], nm['center']: idx[1::2], nm['next']: idx[2::2]})
    if case['order'] == 'reversed':
        df = df.iloc[::-1].reset_index(drop=True)
    elif case['order'] == 'two-halves-interleaved':
        h = len(df) // 2
        df = pd.concat([df.iloc[h:], df.iloc[:h]]).reset_index(drop=True)       # two recordings / bands stacked the other way round
    elif case['order'] == 'ranked':
        df = df.iloc[np.argsort((np.arange(len(df)) * 7919) % len(df), kind='stable')].reset_index(drop=True)
    elif case['order'] == 'rotated':
        df = pd.concat([df.iloc[100:], df.iloc[:100]]).reset_index(drop=True)
    got = guarded(compute_monotonicity, df, x.copy())
    cmp_exact('monotonicity[%d rows, %s]' % (len(df), case['order']), got, ref.ref_monotonicity(x, df))
    rec.label('rows:%d' % len(df), 'order:' + case['order'])
    rec.nontrivial(True)


PARTS = [
    Part('large-tables', check_large, enum=enum_large, shards={'quick': 4, 'thorough': 6}, exhaustive=True, time_cap={'quick': 150, 'thorough': 900}),
    Part('pipeline', check_pipeline, strategy=strat_pipeline, budget={'quick': 800, 'thorough': 30000},
         shards={'quick': 8, 'thorough': 16}),
    Part('synthetic', check_synth, strategy=strat_synth, budget={'quick': 4000, 'thorough': 200000},
         shards={'quick': 4, 'thorough': 16}),
    Part('monotonicity', check_mono, strategy=strat_mono, budget={'quick': 3000, 'thorough': 100000},
         shards={'quick': 4, 'thorough': 16}),
]
