"""C20 - Plots draw the analysis they are given."""
import warnings

import numpy as np
import pandas as pd
from hypothesis import strategies as st
from scipy.stats import zscore

import gen
import ref
import pipeline
import group_common as gc
from harness import Part, Violation, Discard, guarded

import matplotlib
matplotlib.use('Agg')
import matplotlib.pyplot as plt  # noqa: E402

from bycycle import Bycycle  # noqa: E402
from bycycle.plts import (plot_burst_detect_summary, plot_burst_detect_param, plot_cyclepoints_df,  # noqa: E402
                          plot_cyclepoints_array)

ID = 'C20'
TITLE = 'Plots draw the analysis they are given'
REGISTER = True
TECHNIQUE = ('Hypothesis property-based testing of the plotting functions under the Agg backend: the Line2D data, masks and patches of the '
             'produced axes are read back and compared with the cycle table (marker positions and kinds, completeness inside the view, '
             'highlighted burst samples, per-cycle parameter values and threshold lines)')
LEVEL_TEXT = ('Generated-input search: 640 figures (quick), 12k (thorough) over tables of both centrings and both burst methods from '
              'generated signals, fs including values for which k/fs*fs != k, x-limits None or on the sample grid (random windows, windows '
              'without a complete cycle, windows starting / ending exactly on a cycle boundary), plot_only_result, interp and the cyclepoint '
              'switches. Any exception for a valid table / window is a violation. Sampling, not exhaustive.')
RULE = ('Hypothesis: table = compute_features(..., return_samples=True) on a generated bursty / noisy signal; target in {plot_cyclepoints_df, '
        'plot_cyclepoints_array, plot_burst_detect_summary, Bycycle.plot, plot_burst_detect_param}; xlim None or (a/fs, b/fs) with integer '
        'a < b. Oracle: marker lines are identified by their position among the marker lines given the switches (centre, side, rise, decay), '
        'never by colour; every marker is at (s/fs, plotted signal[s]) (|dx| < 0.25/fs, y exact) for a cyclepoint s of that kind; every '
        'cyclepoint with a < s < b-1 (0 < s < n-1 without x-limits) is drawn (cyclepoint plots); summary: unmasked samples of the highlighted trace are inside [last, next] '
        'of a burst cycle and cover every burst cycle lying entirely inside the view; each parameter panel holds (centre/fs, value) of table '
        'cycles, containing every cycle entirely inside the view (interp=False: both ends of the cycle at the value), and a dashed line at '
        'the given threshold. Non-trivial: x-limits given and at least one cycle cut by the window, or a trough-centred table. '
        'Distinct = distinct case.')
ASSUMPTIONS = ['a cycle lying entirely inside the view means a <= last and next <= b-1 (all of its samples are plotted)',
               'a cyclepoint strictly inside the view means a < s < b-1 (the conservative reading)']
TRUSTED = ['numpy', 'pandas', 'matplotlib (Agg)', 'scipy.stats.zscore', 'neurodsp.plts.plot_time_series / plot_bursts']

FS_LIST = [100, 100, 250, 500, 441, 1000, 128]


def marker_lines(ax):
    return [l for l in ax.get_lines() if l.get_marker() == 'o' and l.get_linestyle() in ('None', '', ' ')]


def xy(line):
    return np.ma.asarray(line.get_xdata()), np.ma.asarray(line.get_ydata())


def check_markers(tag, line, kind, points, plotted, fs, a, b, complete):
    """points: int samples of this kind in the table; plotted: full-length signal that is drawn"""
    x, y = xy(line)
    x = np.asarray(x, dtype=float)
    y = np.asarray(y, dtype=float)
    s = np.rint(x * fs).astype(int)
    if len(x) and np.max(np.abs(x - s / fs)) >= 0.25 / fs:
        raise Violation(tag + ':marker-off-sample-grid', '%s markers: x=%s' % (kind, x[:5]))
    allowed = set(int(p) for p in points)
    for si, yi in zip(s, y):
        if si not in allowed:
            raise Violation(tag + ':marker-not-a-cyclepoint', '%s marker at sample %d (t=%.5f) is not a %s of the table (window [%s, %s))' % (kind, si, si / fs, kind, a, b))
        if not (0 <= si < len(plotted)) or not (yi == plotted[si] or (np.isnan(yi) and np.isnan(plotted[si]))):
            raise Violation(tag + ':marker-off-the-signal', '%s marker at sample %d has y=%r, the plotted signal there is %r' % (
                kind, si, yi, plotted[si] if 0 <= si < len(plotted) else None))
    if complete:
        drawn = set(s.tolist())
        lo, hi = (a, b - 1) if a is not None else (0, len(plotted) - 1)      # strictly inside the plotted span
        missing = [p for p in allowed if lo < p < hi and p not in drawn]
        if missing:
            raise Violation(tag + ':cyclepoint-inside-view-not-drawn', '%s at samples %s (window [%s, %s), fs=%s)' % (kind, sorted(missing)[:5], a, b, fs))


def table_points(df):
    nm = ref.names(ref.table_center(df))
    centre = df[nm['center']].values.astype(int)
    side = np.unique(np.concatenate([df[nm['last']].values, df[nm['next']].values])).astype(int)
    rises = df['sample_zerox_rise'].values.astype(int)
    decays = df['sample_zerox_decay'].values.astype(int)
    return nm, centre, side, rises, decays


def cycles_cut(df, nm, a, b):
    if a is None:
        return False
    last, nxt = df[nm['last']].values, df[nm['next']].values
    return bool(np.any(((last < a) & (nxt > a)) | ((last < b - 1) & (nxt > b - 1))))


def check_summary_axes(tag, axes, df, x, fs, th, a, b, plot_only_result, interp):
    nm, centre, side, rises, decays = table_points(df)
    z = zscore(x)
    n = len(x)
    lo, hi = (0, n) if a is None else (a, b)
    ax0 = axes[0]
    plain = [l for l in ax0.get_lines() if l.get_marker() in ('None', None, '') and l.get_linestyle() == '-']
    if len(plain) < 2:
        raise Violation(tag + ':missing-traces', '%d solid lines on the top axes' % len(plain))
    sig_line, burst_line = plain[0], plain[1]
    sx, sy = xy(sig_line)
    s_idx = np.rint(np.asarray(sx, dtype=float) * fs).astype(int)
    if len(s_idx) and (s_idx.min() < 0 or s_idx.max() >= n):
        raise Violation(tag + ':signal-trace', 'the black trace is drawn at times outside the recording (samples %d .. %d of %d)' % (s_idx.min(), s_idx.max(), n))
    if len(s_idx) and (np.max(np.abs(np.asarray(sx) - s_idx / fs)) >= 0.25 / fs or not ref.same_float(np.asarray(sy, dtype=float), z[s_idx])):
        raise Violation(tag + ':signal-trace', 'the black trace is not the normalised signal on the window')
    bx, by = xy(burst_line)
    b_idx = np.rint(np.asarray(bx, dtype=float) * fs).astype(int)
    if len(b_idx) and (b_idx.min() < 0 or b_idx.max() >= n):
        raise Violation(tag + ':burst-trace', 'the highlighted trace is drawn at times outside the recording')
    unmasked = b_idx[~np.ma.getmaskarray(by)]
    lab = df['is_burst'].values.astype(bool)
    last, nxt = df[nm['last']].values.astype(int), df[nm['next']].values.astype(int)
    in_burst = np.zeros(n + 1, dtype=bool)
    for l, r in zip(last[lab], nxt[lab]):
        in_burst[l:r + 1] = True
    bad = [int(s) for s in unmasked if not (0 <= s <= n and in_burst[s])]
    if bad:
        raise Violation(tag + ':highlight-outside-burst-cycles', 'highlighted samples %s are in no is_burst cycle (window [%s, %s), fs=%s)' % (bad[:6], a, b, fs))
    shown = set(unmasked.tolist())
    for l, r in zip(last[lab], nxt[lab]):
        if l >= lo and r <= hi - 1:
            miss = [s for s in range(l, r + 1) if s not in shown]
            if miss:
                raise Violation(tag + ':burst-cycle-not-highlighted', 'burst cycle [%d, %d] inside the window [%s, %s): samples %s not highlighted' % (l, r, a, b, miss[:6]))
    # extrema markers of the top panel: kinds by position (centre, side)
    ml = marker_lines(ax0)
    if len(ml) != 2:
        raise Violation(tag + ':top-panel-marker-lines', '%d marker lines' % len(ml))
    check_markers(tag, ml[0], 'centre extremum', centre, z, fs, a, b, False)
    check_markers(tag, ml[1], 'side extremum', side, z, fs, a, b, False)
    if plot_only_result:
        if len(axes) != 1:
            raise Violation(tag + ':axes-count', '%d axes with plot_only_result' % len(axes))
        return
    keys = [k for k in th if k != 'min_n_cycles']
    if len(axes) != len(keys) + 1:
        raise Violation(tag + ':axes-count', '%d axes for %d thresholds' % (len(axes), len(keys)))
    for ax, key in zip(axes[1:], keys):
        check_param_axes(tag, ax, df, fs, key.replace('_threshold', ''), th[key], a, b, interp, n)


def check_param_axes(tag, ax, df, fs, column, thresh, a, b, interp, n):
    nm = ref.names(ref.table_center(df))
    lo, hi = (0, n) if a is None else (a, b)
    lines = ax.get_lines()
    dashed = [l for l in lines if l.get_linestyle() == '--']
    data = [l for l in lines if l.get_marker() == 'o']
    if len(dashed) != 1 or len(data) != 1:
        raise Violation(tag + ':panel-lines', 'panel %s: %d dashed, %d marker lines' % (column, len(dashed), len(data)))
    dx, dy = xy(dashed[0])
    if not np.all(np.asarray(dy, dtype=float) == thresh):
        raise Violation(tag + ':threshold-line', 'panel %s: dashed line at y=%s, threshold given %r' % (column, np.asarray(dy), thresh))
    px, py = xy(data[0])
    px, py = np.asarray(px, dtype=float), np.asarray(py, dtype=float)
    ps = np.rint(px * fs).astype(int)
    if len(px) and np.max(np.abs(px - ps / fs)) >= 0.25 / fs:
        raise Violation(tag + ':panel-off-sample-grid', 'panel %s' % column)
    cen = df[nm['center']].values.astype(int)
    last, nxt = df[nm['last']].values.astype(int), df[nm['next']].values.astype(int)
    vals = df[column].values.astype(float)
    same = lambda u, v: u == v or (np.isnan(u) and np.isnan(v))  # noqa: E731
    if interp:
        lookup = {int(c): v for c, v in zip(cen, vals)}
        for s, v in zip(ps, py):
            if int(s) not in lookup or not same(lookup[int(s)], v):
                raise Violation(tag + ':panel-value', 'panel %s: point (sample %d, %r) is not (centre, value) of a cycle (expected %r; window [%s, %s), fs=%s)' % (
                    column, s, v, lookup.get(int(s)), a, b, fs))
        drawn = set(ps.tolist())
        for c, l, r in zip(cen, last, nxt):
            if l >= lo and r <= hi - 1 and int(c) not in drawn:
                raise Violation(tag + ':panel-cycle-missing', 'panel %s: cycle [%d, %d] lies inside the window [%s, %s) but is not shown' % (column, l, r, a, b))
    else:
        ends = {}
        for l, r, v in zip(last, nxt, vals):
            ends.setdefault(int(l), []).append(v)
            ends.setdefault(int(r), []).append(v)
        for s, v in zip(ps, py):
            if int(s) not in ends or not any(same(w, v) for w in ends[int(s)]):
                raise Violation(tag + ':panel-step-value', 'panel %s: step point (sample %d, %r) is not a cycle end with that value' % (column, s, v))
        pts = set(zip(ps.tolist(), [None if np.isnan(v) else v for v in py.tolist()]))
        for l, r, v in zip(last, nxt, vals):
            key = None if np.isnan(v) else v
            if l >= lo and r <= hi - 1 and not ((int(l), key) in pts and (int(r), key) in pts):
                raise Violation(tag + ':panel-cycle-missing', 'panel %s (steps): cycle [%d, %d] inside the window is not shown' % (column, l, r))


def check(case, rec):
    c = case['base']
    x = gen.render_signal(c['sig'])
    n = len(x)
    fs = c['fs']
    pipeline.expected_cycles(c, x)
    if c['method'] == 'amp':
        pipeline.trusted_burst_mask(c, x)
    df = pipeline.analyse(c, x, return_samples=True)
    if case.get('row_subset') and case['target'] == 'plot_cyclepoints_df' and len(df) > 3:
        # a filtered table (bursting cycles only, every second cycle): rows are no longer adjacent cycles
        keep_rows = [i for i in range(len(df)) if (case['row_subset'] >> (i % 12)) & 1] or [0]
        df = df.iloc[keep_rows].reset_index(drop=True)
    if case.get('epoch') and case['target'] in ('plot_cyclepoints_df', 'plot_cyclepoints_array') and n >= 40:
        # one epoch of the recording with its epoch-relative table (epoch_df, as compute_features_2d(axis=None) hands out): the
        # cycle straddling the start of the epoch has cyclepoints at negative samples, which are not part of the plotted epoch.
        # Only the two cyclepoint plots: the burst panels place values "at the cycle centres", which is undefined for a cycle whose
        # centre is not on the plotted time axis (DESIGN 6.2b).
        from bycycle.utils import epoch_df
        n_ep = 2 + case['epoch'] % 3
        L = n // n_ep
        j = (case['epoch'] // 3) % n_ep
        tables = guarded(epoch_df, df.copy(deep=True), L * n_ep, L)
        if len(tables[j]) >= 2:
            df = tables[j].reset_index(drop=True)
            x = x[j * L:(j + 1) * L].copy()
            n = L
            rec.label('epoch-table', 'negative-samples' if (df[[c_ for c_ in df.columns if c_.startswith('sample_')]].values < 0).any() else 'no-negative-samples')
    nm, centre, side, rises, decays = table_points(df)
    # x-limits on the sample grid
    spec = case['xlim']
    if spec is None:
        a = b = None
        xlim = None
    else:
        kind, u, v = spec
        last, nxt = df[nm['last']].values.astype(int), df[nm['next']].values.astype(int)
        if kind == 'random':
            a, b = sorted([u % n, v % n])
        elif kind == 'on-boundary':
            a = int(last[u % len(last)])
            b = int(nxt[(u + v % 4) % len(nxt)]) + [0, 1, 2][v % 3]
        elif kind == 'tiny':
            a = u % n
            b = a + 2 + v % max(2, int(df['period'].min()))
        else:
            a, b = 0, n
        if a > b:
            a, b = b, a
        b = min(max(b, a + 2), n)
        a = max(0, min(a, b - 2))
        xlim = (a / fs, b / fs)
    target = case['target']
    tag = target
    th = c.get('th') or {}
    if c['method'] == 'cycles':
        th_plot = {k: th[k] for k in th} if th else {'amp_fraction_threshold': 0.0, 'amp_consistency_threshold': 0.5,
                                                     'period_consistency_threshold': 0.5, 'monotonicity_threshold': 0.8}
    else:
        th_plot = {k: th[k] for k in th} if th.get('burst_fraction_threshold') is not None else {'burst_fraction_threshold': 1}
    order = case.get('th_order', 0)
    if 'min_n_cycles' in th_plot and order:
        # the same settings with min_n_cycles first / in the middle of the dict (key order carries no meaning)
        items = [(k, v) for k, v in th_plot.items() if k != 'min_n_cycles']
        pos = 0 if order == 1 else len(items) // 2
        items.insert(pos, ('min_n_cycles', th_plot['min_n_cycles']))
        th_plot = dict(items)
    plt.close('all')
    keep = df.copy(deep=True)
    try:
        with warnings.catch_warnings():
            warnings.simplefilter('ignore')
            if target == 'plot_cyclepoints_df':
                sw = case['switches']
                plot_sig, plot_extrema, plot_zerox = sw[0], sw[1] or not sw[2], sw[2]
                guarded(plot_cyclepoints_df, df, x, fs, plot_sig=plot_sig, plot_extrema=plot_extrema, plot_zerox=plot_zerox, xlim=xlim)
                ax = plt.gcf().axes[0]
                ml = marker_lines(ax)
                kinds = ([('centre extremum', centre), ('side extremum', side)] if plot_extrema else []) + \
                        ([('rise midpoint', rises), ('decay midpoint', decays)] if plot_zerox else [])
                if len(ml) != len(kinds):
                    raise Violation(tag + ':marker-line-count', '%d marker lines for %d requested kinds' % (len(ml), len(kinds)))
                for line, (kind, pts) in zip(ml, kinds):
                    check_markers(tag, line, kind, pts, x, fs, a, b, True)
                if plot_sig:
                    sl = [l for l in ax.get_lines() if l.get_marker() in ('None', None, '')]
                    if len(sl) != 1:
                        raise Violation(tag + ':signal-line', '%d signal lines' % len(sl))
            elif target == 'plot_cyclepoints_array':
                sw = case['switches']
                if not any(sw[1:]):
                    sw = sw[:1] + [True] + sw[2:]
                arrs = {'peaks': centre if sw[1] else None, 'troughs': side if sw[2] else None,
                        'rises': rises if sw[3] else None, 'decays': decays if sw[4] else None}
                if case.get('dup_points'):
                    # cyclepoint arrays as they come out of a table without de-duplication (every inner side extremum is the last
                    # one of a cycle and the next one of its neighbour) or from overlapping selections
                    last_, next_ = df[nm['last']].values.astype(int), df[nm['next']].values.astype(int)
                    if arrs['troughs'] is not None:
                        arrs['troughs'] = np.concatenate([last_, next_])
                    if arrs['peaks'] is not None and case['dup_points'] % 2:
                        arrs['peaks'] = np.concatenate([centre, centre[::2]])
                extra_kw = {}
                n_series = int(sw[0]) + sum(v is not None for v in arrs.values())
                if case.get('colors'):
                    # a caller-supplied colour cycle (documented plot_time_series keyword), shorter than / as long as / longer than
                    # the number of drawn series: colours are styling and must never decide which cyclepoints are drawn
                    pool = ['k', 'b', 'r', 'm', 'c', 'g', 'y']
                    extra_kw['colors'] = pool[:max(2, min(len(pool), n_series + [-2, -1, 0, 1][case['colors'] % 4]))]     # neurodsp itself cycles lists of two or more colours only
                guarded(plot_cyclepoints_array, x, fs, plot_sig=sw[0], xlim=xlim, **{k: (None if v is None else v.copy()) for k, v in arrs.items()}, **extra_kw)
                ax = plt.gcf().axes[0]
                ml = marker_lines(ax)
                kinds = [(k, v) for k, v in arrs.items() if v is not None]
                if len(ml) != len(kinds):
                    raise Violation(tag + ':marker-line-count', '%d marker lines for %d given arrays' % (len(ml), len(kinds)))
                for line, (kind, pts) in zip(ml, kinds):
                    check_markers(tag, line, kind, pts, x, fs, a, b, True)
            elif target in ('plot_burst_detect_summary', 'Bycycle.plot'):
                por, interp = case['plot_only_result'], case['interp']
                if case.get('np_flags'):
                    # switches computed from data arrive as numpy booleans (df['is_burst'].any(), len(df) > np.int64(500)) or 0 / 1
                    cast_ = [np.bool_, np.bool_, int][case['np_flags'] % 3]
                    por, interp = cast_(por), cast_(interp)
                if target == 'plot_burst_detect_summary':
                    guarded(plot_burst_detect_summary, df, x, fs, dict(th_plot), xlim=xlim, plot_only_result=por, interp=interp)
                    thp = th_plot
                else:
                    kw = gen.cf_kwargs(c)
                    if case.get('recompute_first') and c['method'] == 'cycles':
                        th_plot = {k_: (max(v, 0.125) if k_.endswith('threshold') else v) for k_, v in th_plot.items()}   # leave room for a reduction
                    bm = Bycycle(center_extrema=kw['center_extrema'], burst_method=kw['burst_method'], burst_kwargs=kw['burst_kwargs'],
                                 thresholds=dict(th_plot), find_extrema_kwargs=kw['find_extrema_kwargs'], return_samples=True)
                    guarded(bm.fit, x.copy(), fs, tuple(c['f_range']))
                    df = bm.df_features
                    keep = df.copy(deep=True)
                    nm, centre, side, rises, decays = table_points(df)
                    if case.get('recompute_first') and c['method'] == 'cycles' and all(v >= 0.125 for k_, v in bm.thresholds.items() if k_.endswith('threshold')):
                        # fit -> recompute_edges(reduction) -> plot: the labels come from the recomputed table, the threshold lines
                        # stay at the thresholds the object holds ("the given threshold")
                        guarded(bm.recompute_edges, [None, 0.125][case['recompute_first'] % 2])
                        df = bm.df_features
                        keep = df.copy(deep=True)
                        nm, centre, side, rises, decays = table_points(df)
                        rec.label('plot-after-recompute')
                    thp = dict(bm.thresholds)
                    guarded(bm.plot, xlim=xlim, plot_only_results=por, interp=interp)
                check_summary_axes(tag, plt.gcf().axes, df, x, fs, thp, a, b, por, interp)
                if case.get('second_drawing') and target == 'plot_burst_detect_summary' and c['method'] == 'cycles':
                    # threshold tuning: re-label the SAME table object in place (documented behaviour of detect_bursts_cycles)
                    # and draw it again with the same window - the picture must follow the new labels
                    from bycycle.burst import detect_bursts_cycles
                    th2 = {k: ([min(1.0, v + 0.25), 1.0][case.get('probe', 0) % 2] if k == 'monotonicity_threshold' else v) for k, v in th_plot.items()}
                    plt.close('all')
                    guarded(detect_bursts_cycles, df, **th2)
                    keep = df.copy(deep=True)
                    guarded(plot_burst_detect_summary, df, x, fs, dict(th2), xlim=xlim, plot_only_result=por, interp=interp)
                    check_summary_axes(tag + '[second-drawing]', plt.gcf().axes, df, x, fs, th2, a, b, por, interp)
            else:
                column = case['param'] if case['param'] in df.columns else ('monotonicity' if 'monotonicity' in df.columns else 'burst_fraction')
                guarded(plot_burst_detect_param, df, x, fs, column, case['thresh'], xlim=xlim, interp=(np.bool_(case['interp']) if case.get('np_flags') else case['interp']))
                check_param_axes(tag, plt.gcf().axes[0], df, fs, column, case['thresh'], a, b, case['interp'], n)
    finally:
        plt.close('all')
    ok, why = ref.frames_equal(df, keep)
    if not ok:
        raise Violation(tag + ':input-table-modified', why)
    cut = cycles_cut(df, nm, a, b)
    exact = xlim is None or ((a / fs) * fs == a and (b / fs) * fs == b)
    rec.label('target:' + target, 'center:' + c['center'], 'method:' + c['method'], 'xlim:%s' % ('none' if spec is None else spec[0]),
              'cycle-cut-by-window' if cut else 'no-cut', 'min_n_cycles-not-last' if (order and 'min_n_cycles' in th_plot) else 'keys-natural', 'k/fs-exact' if exact else 'k/fs-inexact', 'fs:%s' % fs)
    rec.nontrivial((xlim is not None and cut) or c['center'] == 'trough')


@st.composite
def strategy(draw, tier):
    fs = draw(st.sampled_from(FS_LIST))
    p_lo = draw(st.sampled_from([10.0, 12.5, 16.0, 25.0]))
    band = {'fs': fs, 'f_range': [fs / p_lo, fs / p_lo * draw(st.sampled_from([1.5, 2.0]))]}
    n = draw(st.integers(int(10 * p_lo), int(30 * p_lo)))
    method = draw(st.sampled_from(['cycles', 'cycles', 'amp']))
    sig = draw(gen.st_signal(band, n, bursty=True))
    if method == 'cycles':
        th = {'amp_fraction_threshold': draw(st.sampled_from([0.0, 0.2])), 'amp_consistency_threshold': draw(st.sampled_from([0.2, 0.4, 0.6])),
              'period_consistency_threshold': draw(st.sampled_from([0.3, 0.5])), 'monotonicity_threshold': draw(st.sampled_from([0.4, 0.6, 0.8]))}
        if draw(st.booleans()):
            th['min_n_cycles'] = draw(st.integers(1, 3))
        bk = None
    else:
        th = {'burst_fraction_threshold': draw(st.sampled_from([0.5, 0.9, 1]))}
        if draw(st.booleans()):
            th['min_n_cycles'] = draw(st.integers(1, 3))
        bk = {'amp_threshes': draw(st.sampled_from([[0.5, 1], [1, 1.5], [0.8, 1.2]]))} if draw(st.booleans()) else None
    base = {'fs': fs, 'f_range': band['f_range'], 'sig': sig, 'center': draw(st.sampled_from(['peak', 'trough'])), 'method': method,
            'fek': draw(st.sampled_from([None, None, {'boundary': 0}, {'boundary': 5}])), 'th': th, 'bk': bk, 'routing': None, 'return_samples': True}
    xlim = draw(st.one_of(st.none(), st.tuples(st.sampled_from(['random', 'random', 'on-boundary', 'on-boundary', 'tiny', 'full']),
                                                st.integers(0, 100000), st.integers(0, 100000)).map(list)))
    second = draw(st.booleans())
    return {'base': base, 'xlim': xlim, 'probe': draw(st.integers(0, 1)),
            'target': draw(st.sampled_from(['plot_cyclepoints_df', 'plot_cyclepoints_array', 'plot_burst_detect_summary',
                                            'plot_burst_detect_summary', 'plot_burst_detect_summary', 'Bycycle.plot', 'Bycycle.plot', 'plot_burst_detect_param'])),
            'switches': draw(st.lists(st.booleans(), min_size=5, max_size=5)),
            'plot_only_result': draw(st.sampled_from([True, True, True, False])) if second else draw(st.booleans()),
            'interp': draw(st.booleans()), 'param': draw(st.sampled_from(['monotonicity', 'amp_consistency', 'period_consistency', 'amp_fraction', 'burst_fraction'])),
            'thresh': draw(st.sampled_from([0.0, 0.3, 0.5, 0.8, 1.0])), 'th_order': draw(st.sampled_from([0, 0, 1, 2])),
            'second_drawing': second, 'dup_points': draw(st.sampled_from([0, 0, 1, 2])), 'np_flags': draw(st.sampled_from([0, 0, 1, 2, 3])), 'colors': draw(st.one_of(st.just(0), st.integers(1, 8))), 'recompute_first': draw(st.integers(0, 3)), 'epoch': draw(st.one_of(st.just(0), st.just(0), st.integers(1, 30))), 'row_subset': draw(st.one_of(st.just(0), st.just(0), st.integers(1, 4094)))}


PARTS = [Part('figures', check, strategy=strategy, budget={'quick': 640, 'thorough': 12000}, shards={'quick': 16, 'thorough': 16},
              time_cap={'quick': 200, 'thorough': 3000})]
