"""C03 - Flank midpoints sit where the flank crosses its half-height."""
import itertools

import numpy as np
from hypothesis import strategies as st

import gen
import ref
from harness import Part, Violation, Discard, guarded
from bycycle.cyclepoints import find_extrema, find_zerox

ID = 'C03'
TITLE = 'Flank midpoints sit where the flank crosses its half-height'
RULE = ('enum: every signal over the alphabet {-1,0,1} (quick, length 3..7) / {-2..2} (thorough, length 3..7) x every '
        'strictly increasing alternating peak/trough index sequence with >= 1 of each kind (both start kinds); '
        'pipeline: extrema produced by find_extrema (first_extrema in {peak, trough, None}) on generated signals; '
        'raw: Hypothesis integer arrays up to length 60 with drawn alternating index subsets; thorough only: atheris / libFuzzer '
        'coverage-guided fuzzing of the same check body (bytes -> integer array + alternating index subset, empty corpus). Oracle: independent '
        'per-flank model (level = mean of the two extremum voltages; crossing = sample i with x[i] on the start side '
        '(<= for rises, > for decays) and x[i+1] on the other; floor of the median; temporal centre start+len//2 when the '
        'flank is inverted, all-zero, or never crosses), exact equality; plus counts = number of trough->peak / '
        'peak->trough adjacencies, temporal order, and every midpoint inside [start extremum, end extremum]. '
        'Non-trivial: a flank with >= 2 crossings, or a sample exactly on the half-height level, or an inverted / '
        'all-zero / equal-voltage flank. Distinct = distinct (signal, index sequence).')
REGISTER = True
TECHNIQUE = 'exhaustive enumeration of small integer signals x all alternating extremum sequences, plus Hypothesis raw arrays and find_extrema-produced extrema, differential against an independent per-flank model'
LEVEL_TEXT = 'Exhaustive over alphabet {-1,0,1} (quick) / {-2..2} (thorough), length 3..7, every alternating index sequence (6e5 / 2e7 calls); random search on arrays up to length 60 and on real pipelines. Complete below the bound, sampling above it.'
ASSUMPTIONS = ['peaks and troughs strictly alternate and are strictly increasing (what find_extrema produces)',
               'the input arrays are passed as fresh copies']
TRUSTED = ['numpy']


def classify(x, peaks, troughs):
    ev = sorted([(int(p), 'P') for p in peaks] + [(int(t), 'T') for t in troughs])
    labs = set()
    for (a, ka), (b, kb) in zip(ev[:-1], ev[1:]):
        seg = x[a:b + 1]
        s, e = seg[0], seg[-1]
        kind = 'rise' if ka == 'T' else 'decay'
        if not np.any(seg != 0):
            labs.add('all-zero-flank')
            continue
        if (kind == 'rise' and s > e) or (kind == 'decay' and s < e):
            labs.add('inverted-flank')
            continue
        lvl = (s + e) / 2.0
        if s == e:
            labs.add('equal-voltage-flank')
        if np.any(seg == lvl):
            labs.add('sample-on-level')
        if kind == 'rise':
            c = sum(1 for i in range(len(seg) - 1) if seg[i] <= lvl and not seg[i + 1] <= lvl)
        else:
            c = sum(1 for i in range(len(seg) - 1) if seg[i] > lvl and not seg[i + 1] > lvl)
        if c >= 2:
            labs.add('multi-crossing')
        if c == 0:
            labs.add('no-crossing')
    return labs


HELD = []        # (rises, decays of an earlier call, what they must still be): results handed out stay valid


def core(x, peaks, troughs, rec, idx_dtype=None):
    peaks = np.asarray(peaks, dtype=int)
    troughs = np.asarray(troughs, dtype=int)
    exp_r, exp_d = ref.ref_midpoints(x, peaks, troughs)
    xin = x.copy()
    if idx_dtype:
        # index arrays as other tools hand them over (int32 from MATLAB / C code, uint16 / int16 from compact storage); every
        # index fits the dtype
        rises, decays = guarded(find_zerox, xin, peaks.astype(idx_dtype), troughs.astype(idx_dtype))
    else:
        rises, decays = guarded(find_zerox, xin, peaks.copy(), troughs.copy())
    rises = np.asarray(rises)
    decays = np.asarray(decays)
    ev = sorted([(int(p), 'P') for p in peaks] + [(int(t), 'T') for t in troughs])
    n_r = sum(1 for (a, ka), (b, kb) in zip(ev[:-1], ev[1:]) if ka == 'T')
    n_d = len(ev) - 1 - n_r
    if len(rises) != n_r or len(decays) != n_d:
        raise Violation('flank-count', 'rises %d (expected %d), decays %d (expected %d)' % (len(rises), n_r, len(decays), n_d))
    # inside the flank, in temporal order
    ri = di = 0
    for (a, ka), (b, kb) in zip(ev[:-1], ev[1:]):
        if ka == 'T':
            m = rises[ri]; ri += 1
        else:
            m = decays[di]; di += 1
        if not (a <= m <= b):
            raise Violation('midpoint-outside-flank', '%s midpoint %d not in [%d,%d]' % ('rise' if ka == 'T' else 'decay', m, a, b))
    if not np.array_equal(rises, exp_r):
        raise Violation('rises-differ-from-reference', '%s | x=%s peaks=%s troughs=%s' % (
            ref.first_diff(rises, exp_r), x.tolist()[:40], peaks.tolist()[:12], troughs.tolist()[:12]))
    if not np.array_equal(decays, exp_d):
        raise Violation('decays-differ-from-reference', '%s | x=%s peaks=%s troughs=%s' % (
            ref.first_diff(decays, exp_d), x.tolist()[:40], peaks.tolist()[:12], troughs.tolist()[:12]))
    if not np.array_equal(xin, x):
        raise Violation('input-mutated', '')
    for (old_r, old_d, want_r, want_d) in HELD:
        if not (np.array_equal(old_r, want_r) and np.array_equal(old_d, want_d)):
            raise Violation('earlier-result-changed-by-later-call', 'the arrays returned for an earlier recording changed when find_zerox was called again (%d rises, %d decays now)' % (len(rises), len(decays)))
    del HELD[:-2]
    HELD.append((rises, decays, np.array(exp_r, copy=True), np.array(exp_d, copy=True)))
    labs = classify(x, peaks, troughs)
    pattern = ev[0][1] + '..' + ev[-1][1]
    rec.label('pattern:' + pattern, *sorted(labs))
    rec.nontrivial(bool(labs & {'multi-crossing', 'sample-on-level', 'inverted-flank', 'all-zero-flank',
                                'equal-voltage-flank'}))


def check_enum(case, rec):
    x = np.array(case['x'], dtype=float) * (2.0 ** case.get('scale_exp', 0))     # units: the definition is scale free
    if case.get('gain'):
        x = x * case['gain']        # ADC counts times a non-dyadic gain: half-heights that are ties only up to rounding
    shift = 0
    if case.get('loud_prefix'):
        # a float32 recording that starts with a long loud stretch and goes on at a much smaller amplitude
        L = case['loud_prefix']
        pre = (1e4 * np.sin(np.arange(L) * 0.3)).astype(np.float32)
        x = np.concatenate([pre, x.astype(np.float32)])
        shift = L
    if case.get('int_dtype') and not case.get('scale_exp') and not case.get('gain') and not case.get('loud_prefix'):
        x = np.array(case['x']).astype(case['int_dtype'])      # raw counts, negative ones included
    if case.get('ulp_base'):
        # a trace riding on an offset and quantised at the last bit of its dtype: neighbouring levels are adjacent floats, so the
        # halfway level of a flank between adjacent levels rounds onto one of its two extrema
        base, dt = case['ulp_base']
        dt = np.dtype(dt)
        b = dt.type(base)
        x = (b + np.array(case['x'], dtype=dt) * np.spacing(b)).astype(dt)
    if case.get('quiet_prefix'):
        x = np.concatenate([np.zeros(case['quiet_prefix'], dtype=x.dtype), x])
        shift += case['quiet_prefix']
    rec.label('scale:%s' % ('1' if not case.get('scale_exp') else ('tiny' if case['scale_exp'] < -20 else 'other')),
              'gain:%s' % (case.get('gain') or 1), 'ulp-levels' if case.get('ulp_base') else 'ordinary-levels', 'signal-dtype:%s' % x.dtype, 'index-dtype:%s' % (case.get('idx_dtype') or 'int64'))
    core(x, [p + shift for p in case['peaks']], [t + shift for t in case['troughs']], rec, idx_dtype=case.get('idx_dtype'))


def check_pipeline(case, rec):
    x = gen.render_signal(case['sig'])
    kwargs = dict(boundary=case['boundary'], first_extrema=case['first'])
    if case['fk'] is not None:
        kwargs['filter_kwargs'] = gen.copy_json(case['fk'])
    try:
        peaks, troughs = find_extrema(x, case['fs'], tuple(case['f_range']), **kwargs)
    except Exception:
        raise Discard('find_extrema raised (C02 territory)')
    if len(peaks) < 1 or len(troughs) < 1 or len(peaks) + len(troughs) < 3:
        raise Discard('fewer than three extrema')
    ev = sorted([(int(p), 'P') for p in peaks] + [(int(t), 'T') for t in troughs])
    if any(a[1] == b[1] or a[0] == b[0] for a, b in zip(ev[:-1], ev[1:])):
        raise Discard('extrema do not alternate (C02 territory)')
    rec.label(*gen.signal_classes(case['sig']))
    core(x, peaks, troughs, rec)


def alternating_sequences(n):
    """every strictly increasing index sequence of length >= 2 over range(n), labelled alternately, both start kinds"""
    for m in range(2, n + 1):
        for idx in itertools.combinations(range(n), m):
            for start in ('P', 'T'):
                kinds = [start if i % 2 == 0 else ('T' if start == 'P' else 'P') for i in range(m)]
                peaks = [i for i, k in zip(idx, kinds) if k == 'P']
                troughs = [i for i, k in zip(idx, kinds) if k == 'T']
                yield peaks, troughs


def enum(tier, shard, nshards):
    alphabet = (-1, 0, 1) if tier == 'quick' else (-2, -1, 0, 1, 2)
    maxlen = 7
    count = 0
    for n in range(3, maxlen + 1):
        seqs = list(alternating_sequences(n))
        for x in itertools.product(alphabet, repeat=n):
            count += 1
            if count % nshards != shard:
                continue
            for peaks, troughs in seqs:
                yield {'x': list(x), 'peaks': peaks, 'troughs': troughs}


@st.composite
def strat_raw(draw, tier):
    n = draw(st.integers(3, 60))
    scale = draw(st.sampled_from([1, 1, 2, 4]))
    x = draw(st.lists(st.integers(-scale, scale), min_size=n, max_size=n))
    if draw(st.integers(0, 5)) == 0:
        a = draw(st.integers(0, n - 1)); b = draw(st.integers(a, n))
        x[a:b] = [0] * (b - a)
    idx = sorted(draw(st.sets(st.integers(0, n - 1), min_size=2, max_size=min(n, 14))))
    start = draw(st.sampled_from(['P', 'T']))
    peaks = [i for j, i in enumerate(idx) if (j % 2 == 0) == (start == 'P')]
    troughs = [i for j, i in enumerate(idx) if (j % 2 == 0) != (start == 'P')]
    case = {'x': x, 'peaks': peaks, 'troughs': troughs, 'scale_exp': draw(st.sampled_from([0, 0, 0, -50, -40, -30, -10, 3, 20, -600, -1040, 600])),
            'gain': draw(st.sampled_from([None, None, 0.195, 0.1, 1.0 / 3.0, 0.0061, 7.3])),
            'loud_prefix': draw(st.sampled_from([0, 0, 0, 0, 20000]))}
    special = draw(st.integers(0, 9))
    if special == 0:
        case.update(scale_exp=0, gain=None, loud_prefix=0,
                    ulp_base=draw(st.sampled_from([[1.0, 'float64'], [1000.0, 'float32'], [-3.0e7, 'float64'], [0.1, 'float64'], [65504.0, 'float32']])))
    elif special == 2:
        case.update(scale_exp=0, gain=None, loud_prefix=0, int_dtype=draw(st.sampled_from(['int64', 'int32', 'int16', 'int8'])))
    elif special == 1:
        dt, pre = draw(st.sampled_from([['int32', 0], ['int16', 0], ['uint16', 0], ['uint8', 0], ['int16', 16384 + 300], ['int16', 30000], ['uint16', 33000], ['uint16', 60000], ['int32', 70000]]))
        case.update(loud_prefix=0, idx_dtype=dt, quiet_prefix=pre)
    return case


@st.composite
def strat_pipeline(draw, tier):
    band = draw(gen.st_band())
    fk = draw(gen.st_filter_kwargs(band))
    fs, (f_lo, f_hi) = band['fs'], band['f_range']
    p_lo = fs / f_lo
    n_min = int(max(gen.filt_len_of(band, fk) + 8, 6 * p_lo))
    n = draw(st.integers(n_min, max(n_min + 64, int(min(2500, 30 * p_lo)))))
    sig = draw(gen.st_signal(band, n, tie_rich=True))
    return {'fs': fs, 'f_range': [f_lo, f_hi], 'sig': sig, 'fk': fk, 'boundary': draw(st.sampled_from([0, 0, 1, 5])),
            'first': draw(st.sampled_from(['peak', 'trough', None]))}


def decode(fdp):
    n = fdp.ConsumeIntInRange(3, 40)
    amp = fdp.ConsumeIntInRange(1, 3)
    x = [fdp.ConsumeIntInRange(-amp, amp) for _ in range(n)]
    idx = [i for i in range(n) if fdp.ConsumeBool()]
    if len(idx) < 2:
        idx = [0, n - 1]
    start_peak = fdp.ConsumeBool()
    peaks = [i for j, i in enumerate(idx) if (j % 2 == 0) == start_peak]
    troughs = [i for j, i in enumerate(idx) if (j % 2 == 0) != start_peak]
    return {'x': x, 'peaks': peaks, 'troughs': troughs, 'gain': [None, 0.195, 0.1, 1.0 / 3.0][fdp.ConsumeIntInRange(0, 3)]}


PARTS = [
    Part('exhaustive', check_enum, enum=enum, shards={'quick': 12, 'thorough': 16}, exhaustive=True,
         time_cap={'quick': 200, 'thorough': 3000}),
    Part('raw-arrays', check_enum, strategy=strat_raw, budget={'quick': 4000, 'thorough': 200000},
         shards={'quick': 4, 'thorough': 16}),
    Part('pipeline', check_pipeline, strategy=strat_pipeline, budget={'quick': 600, 'thorough': 30000},
         shards={'quick': 6, 'thorough': 16}),
    Part('fuzz-atheris', check_enum, decode=decode, budget={'quick': 0, 'thorough': 3000000}, shards={'quick': 1, 'thorough': 12},
         tiers=('thorough',), time_cap={'quick': 60, 'thorough': 1500}),
]
