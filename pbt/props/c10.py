"""C10 - Results are covariant with amplitude and sampling-rate units."""
import numpy as np
from hypothesis import strategies as st

import gen
import ref
import pipeline
from harness import Part, Violation, Discard, guarded, case_key

ID = 'C10'
TITLE = 'Results are covariant with amplitude and sampling-rate units'
REGISTER = True
TECHNIQUE = ('Hypothesis property-based testing of two metamorphic relations with power-of-two factors, compared bit-exactly: '
             '(a) compute_features(a*sig) has identical non-voltage columns and a-times the voltage columns / band_amp; '
             '(b) compute_features(sig, c*fs, c*f_range) is the identical table (filter lengths in cycles)')
LEVEL_TEXT = ('Generated-input search (800 base runs, each followed by one amplitude-scaled and one rate-scaled run; 25k thorough) over '
              'the C01 domain, a = 2^e with e in [-40, 40], c = 2^e with e in [-4, 4], both burst methods, both centrings. '
              'Exact comparison (power-of-two scaling commutes with IEEE arithmetic). Sampling, not exhaustive.')
RULE = ('Hypothesis: C01 domain; amplitude factor a = 2^e, e in -40..40 (signals are O(1e-3..1e3), so everything stays normal); rate '
        'factor c = 2^e, e in -4..4, applied to fs and both band edges with the same samples; for (b) n_seconds filters and '
        'min_burst_duration (both expressed in seconds) are removed from the option set, as the statement requires lengths in cycles. '
        'Oracle (a): all columns except volt_* and band_amp bit-identical, those exactly a times the base; (b): whole table bit-identical. '
        'Non-trivial: >= 4 rows with at least one burst and one non-burst cycle and a != 1 (c != 1). Discarded: scaled configurations '
        'for which the trusted neurodsp filter design itself raises. Distinct = distinct case.')
ASSUMPTIONS = ['power-of-two scaling is exact in IEEE-754 absent overflow/underflow; the generated magnitudes keep every intermediate normal',
               'neurodsp filter design depends on fs and f only through their ratio (trusted); where it raises for the scaled configuration the case is discarded']
TRUSTED = ['numpy', 'pandas', 'neurodsp filter design']

VOLT = ['volt_peak', 'volt_trough', 'volt_rise', 'volt_decay', 'volt_amp', 'band_amp']


@st.composite
def strategy(draw, tier):
    case = draw(gen.st_analysis_case(bursty=draw(st.booleans()), tie_rich=draw(st.integers(0, 3)) == 0))
    case['a_exp'] = draw(st.one_of(st.integers(-40, 40), st.sampled_from([-30, -20, -3, 1, 3, 20, 30])))
    case['c_exp'] = draw(st.sampled_from([-4, -3, -2, -1, 1, 2, 3, 4]))
    case['reuse_options'] = draw(st.integers(0, 2)) == 0
    case['inplace'] = draw(st.integers(0, 2)) == 0
    case['reuse_table'] = draw(st.booleans())
    return case


def compare(tag, base, other, factor):
    if list(base.columns) != list(other.columns):
        raise Violation(tag + ':columns', '%s vs %s' % (list(base.columns), list(other.columns)))
    if len(base) != len(other):
        raise Violation(tag + ':row-count', '%d vs %d' % (len(base), len(other)))
    for col in base.columns:
        a, b = base[col].values, other[col].values
        if a.dtype != b.dtype:
            raise Violation(tag + ':dtype:' + col, '%s vs %s' % (a.dtype, b.dtype))
        if col in VOLT and factor != 1:
            ok = ref.same_float(a * factor, b)
        elif a.dtype.kind == 'f':
            ok = ref.same_float(a, b)
        else:
            ok = np.array_equal(a, b)
        if not ok:
            raise Violation(tag + ':' + col, '%s (factor %r)' % (ref.first_diff(a * factor if col in VOLT else a, b), factor))


def check(case, rec):
    x = gen.render_signal(case['sig'])
    int_scaling = x.dtype.kind == 'i' and 0 <= case['a_exp'] <= 40
    if not int_scaling:
        x = x.astype(float)          # a*x is float then anyway: compare like with like
    pipeline.expected_cycles(case, x)
    if case['method'] == 'amp':
        pipeline.trusted_burst_mask(case, x)
    base = pipeline.analyse(case, x)
    rec.label(*gen.case_labels(case))
    a = 2.0 ** case['a_exp']
    scaled = pipeline.analyse(case, x * (2 ** case['a_exp']) if int_scaling else x * a)   # integer counts stay integer counts
    compare('amplitude', base, scaled, a)
    # (b) rate units: lengths must be in cycles
    c = 2.0 ** case['c_exp']
    cb = gen.copy_json({k: v for k, v in case.items() if k != 'sig'})
    cb['sig'] = case['sig']
    fek = cb.get('fek')
    if fek and 'n_seconds' in (fek.get('filter_kwargs') or {}):
        fek['filter_kwargs'] = None if len(fek['filter_kwargs']) == 1 else {k: v for k, v in fek['filter_kwargs'].items() if k != 'n_seconds'}
        if fek['filter_kwargs'] is None:
            del fek['filter_kwargs']
    if cb.get('bk') and 'min_burst_duration' in cb['bk']:
        del cb['bk']['min_burst_duration']
    changed = case_key(cb) != case_key(case)
    if changed:
        pipeline.expected_cycles(cb, x)          # the option set without the seconds-based lengths has its own precondition
    base_b = pipeline.analyse(cb, x) if changed else base
    cs = dict(cb, fs=cb['fs'] * c, f_range=[cb['f_range'][0] * c, cb['f_range'][1] * c])
    pipeline.expected_cycles(cs, x)                 # discards when the trusted design rejects the scaled band
    ref.ref_band_amp(x, cs['fs'], tuple(cs['f_range']))   # ... or the fixed 3-cycle band-amplitude filter of the scaled band
    if cb['method'] == 'amp':
        pipeline.trusted_burst_mask(cs, x)
    rate = pipeline.analyse(cs, x)
    compare('rate', base_b, rate, 1)
    if case.get('inplace') and not int_scaling:
        # the caller rescales its OWN array in place (unit conversion) and analyses the same object again
        import warnings
        from bycycle.features import compute_features
        buf = np.array(x, dtype=float, copy=True)
        with warnings.catch_warnings():
            warnings.simplefilter('ignore')
            first = guarded(compute_features, buf, case['fs'], tuple(case['f_range']), **gen.cf_kwargs(case))
            buf *= a
            second = guarded(compute_features, buf, case['fs'], tuple(case['f_range']), **gen.cf_kwargs(case))
        compare('amplitude-in-place', first, second, a)
    if cb['method'] == 'amp' and case.get('reuse_table'):
        # a cycle table holds sample indices only, so it is unit free: the burst features computed from it under both
        # unit conventions must coincide
        import warnings
        from bycycle.features import compute_shape_features, compute_burst_features
        with warnings.catch_warnings():
            warnings.simplefilter('ignore')
            shp = guarded(compute_shape_features, x.copy(), cb['fs'], tuple(cb['f_range']), center_extrema=cb['center'],
                          find_extrema_kwargs=gen.copy_json(cb.get('fek')))
            bk = gen.cf_kwargs(cb)['burst_kwargs'] or {}
            one = guarded(compute_burst_features, shp, x.copy(), burst_method='amp', burst_kwargs=dict(bk, fs=cb['fs'], f_range=tuple(cb['f_range'])))
            two = guarded(compute_burst_features, shp, x.copy(), burst_method='amp', burst_kwargs=dict(bk, fs=cs['fs'], f_range=tuple(cs['f_range'])))
        compare('rate-reused-table', one, two, 1)
    if case.get('reuse_options'):
        # a caller who keeps ONE set of option dictionaries and analyses the same samples under both unit conventions
        import warnings
        from bycycle.features import compute_features
        kw = gen.cf_kwargs(cb)
        with warnings.catch_warnings():
            warnings.simplefilter('ignore')
            first = guarded(compute_features, x.copy(), cb['fs'], tuple(cb['f_range']), **kw)
            second = guarded(compute_features, x.copy(), cs['fs'], tuple(cs['f_range']), **kw)
        compare('rate-reused-options', first, second, 1)
    lab = base['is_burst'].values
    mixed = bool(lab.any() and not lab.all())
    rec.label('int-signal' if int_scaling else 'float-signal', 'options-reused' if case.get('reuse_options') else 'fresh-options', 'labels-mixed' if mixed else 'labels-uniform', 'a<1' if a < 1 else 'a>1', 'c<1' if c < 1 else 'c>1',
              'seconds-options-removed' if changed else 'cycles-options')
    rec.nontrivial(len(base) >= 4 and mixed)


PARTS = [Part('covariance', check, strategy=strategy, budget={'quick': 1200, 'thorough': 25000},
              shards={'quick': 16, 'thorough': 16})]
