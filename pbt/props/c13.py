"""C13 - Epoched (axis=None) analysis partitions the flattened analysis."""
import warnings

import numpy as np
import pandas as pd
from hypothesis import strategies as st

import gen
import gen_tables
import ref
import pipeline
from harness import Part, Violation, Discard, guarded, with_timeout
from bycycle.features import compute_features
from bycycle.group import compute_features_2d
from bycycle.utils import epoch_df

ID = 'C13'
TITLE = 'Epoched (axis=None) analysis partitions the flattened analysis'
REGISTER = True
TECHNIQUE = ('Hypothesis property-based testing: epoch_df on synthetic and real tables and compute_features_2d(axis=None) on generated '
             '2-D arrays, against a partition oracle (every flattened cycle exactly once, in the epoch holding its closing extremum, '
             'order and values preserved, samples shifted by the epoch start) and reference re-labelling per epoch')
LEVEL_TEXT = ('Generated-input search: 2k epoch_df cases + 500 axis=None pipelines (quick), 150k + 20k (thorough); epoch lengths drawn to '
              'coincide with closing extrema, to be shorter than a period (empty epochs) or arbitrary. Exact comparison.')
RULE = ('epoch_df: synthetic tables (both centrings, 1..25 rows) and real tables; epoch_len in {a closing-extremum sample / m, shorter '
        'than the shortest period, arbitrary}; sig_len a multiple of epoch_len or arbitrary >= last extremum. axis=None: arrays (n_epochs, L) '
        'cut from a generated signal with L chosen from closing extrema of the uncut analysis / arbitrary; one option set, a per-epoch '
        'list (same method and centring, different thresholds) or the same dict object repeated; C / Fortran / transposed-view memory layout; '
        'optionally the call is repeated with the same argument objects. Oracle: number of epochs = ceil(sig_len / L); concatenating the epochs after '
        'adding back k*L reproduces the flattened table row for row; row r sits in epoch k with k*L < closing_r <= (k+1)*L; all feature '
        'columns bit-identical; labels = flattened labels (one option set) or the reference labeller applied to the epoch rows with the '
        'epoch thresholds (list). Non-trivial: an epoch boundary coinciding with a closing extremum, or an empty epoch, or a burst spanning '
        'an epoch boundary. Distinct = distinct case.')
ASSUMPTIONS = ['return_samples=False is not exercised for axis=None (unspecified there)',
               'per-epoch lists use one burst method and one centring (documented requirement) and keep min_n_cycles in the thresholds']
TRUSTED = ['numpy', 'pandas', 'reference label functions (validated in C06 / C07)']


def partition_check(tag, flat, epochs, L, sig_len, nm, compare_labels=True, unordered=False):
    """flat: table with absolute samples; epochs: list of tables with epoch-relative samples"""
    n_ep = -(-sig_len // L)
    if len(epochs) != n_ep:
        raise Violation(tag + ':epoch-count', '%d epochs for sig_len %d, epoch_len %d' % (len(epochs), sig_len, L))
    closing = flat[nm['next']].values.astype(int)
    scols = [c for c in flat.columns if c.startswith('sample_')]
    pos = 0
    assignment = []
    for k, ep in enumerate(epochs):
        if not isinstance(ep, pd.DataFrame):
            raise Violation(tag + ':not-a-table', 'epoch %d is %s' % (k, type(ep).__name__))
        if list(ep.columns) != list(flat.columns):
            raise Violation(tag + ':columns', 'epoch %d: %s' % (k, list(ep.columns)))
        want_rows = np.flatnonzero((closing > k * L) & (closing <= (k + 1) * L))
        if unordered:
            # rows out of time order (stacked channels, a table ranked by a feature): the epoch holds its rows in table order
            if len(ep) != len(want_rows):
                raise Violation(tag + ':rows-in-epoch', 'epoch %d (%d, %d] holds %d rows, %d cycles close inside it' % (k, k * L, (k + 1) * L, len(ep), len(want_rows)))
            sub = flat.iloc[want_rows]
            for c in flat.columns:
                a, b = sub[c].values, ep[c].values
                if c in scols:
                    a = a - k * L
                same = ref.same_float(a, b) if a.dtype.kind == 'f' else np.array_equal(a, b)
                if not same:
                    raise Violation(tag + ':unordered-table', 'epoch %d column %s: %s' % (k, c, ref.first_diff(a, b)))
            assignment.append((0, len(ep)))
            continue
        if len(ep) != len(want_rows):
            raise Violation(tag + ':rows-in-epoch', 'epoch %d (%d, %d] holds %d rows, %d cycles close inside it (closing %s)' % (
                k, k * L, (k + 1) * L, len(ep), len(want_rows), closing[:12].tolist()))
        if len(want_rows) and not np.array_equal(want_rows, np.arange(pos, pos + len(want_rows))):
            raise Violation(tag + ':reference-order', 'internal')
        sub = flat.iloc[pos:pos + len(ep)]
        for c in flat.columns:
            a, b = sub[c].values, ep[c].values
            if c in scols:
                if not np.array_equal(a - k * L, b):
                    raise Violation(tag + ':sample-shift', 'epoch %d column %s: %s' % (k, c, ref.first_diff(a - k * L, b)))
            elif c == 'is_burst':
                if compare_labels and not np.array_equal(a, b):
                    raise Violation(tag + ':labels-differ-from-flattened', 'epoch %d: %s' % (k, ref.first_diff(a, b)))
            else:
                same = ref.same_float(a, b) if a.dtype.kind == 'f' else np.array_equal(a, b)
                if not same:
                    raise Violation(tag + ':feature-value', 'epoch %d column %s: %s' % (k, c, ref.first_diff(a, b)))
        assignment.append((pos, len(ep)))
        pos += len(ep)
    if unordered:
        if sum(n for _, n in assignment) != len(flat):
            raise Violation(tag + ':cycles-lost', '%d of %d cycles appear in the epochs' % (sum(n for _, n in assignment), len(flat)))
        return bool(np.any(closing % L == 0)), any(n == 0 for _, n in assignment), False, assignment
    if pos != len(flat):
        raise Violation(tag + ':cycles-lost', '%d of %d flattened cycles appear in the epochs' % (pos, len(flat)))
    coincide = bool(np.any(closing % L == 0))
    empty = any(n == 0 for _, n in assignment)
    lab = flat['is_burst'].values if 'is_burst' in flat.columns else np.zeros(len(flat), dtype=bool)
    spanning = False
    for (p, n) in assignment[:-1]:
        e = p + n
        if 0 < e < len(flat) and lab[e - 1] and lab[e]:
            spanning = True
    return coincide, empty, spanning, assignment


def pick_epoch_len(spec, closing, periods, sig_len):
    kind, v, m = spec
    if kind == 'coincide':
        e = int(closing[v % len(closing)])
        divs = [d for d in range(1, 7) if e % d == 0]
        return max(2, e // divs[m % len(divs)])
    if kind == 'short':
        return max(2, int(periods.min()) - 1 - (v % 3))
    return max(2, 2 + v % max(2, sig_len))


def check_epoch_df(case, rec):
    if case['table']['kind'] == 'synthetic':
        flat = gen_tables.build_table(case['table']['recipe'], method=case['table']['method'])
    else:
        c = case['table']['case']
        x = gen.render_signal(c['sig'])
        pipeline.expected_cycles(c, x)
        if c['method'] == 'amp':
            pipeline.trusted_burst_mask(c, x)
        flat = pipeline.analyse(c, x, return_samples=True)
    order = case.get('row_order', 'time')
    if order == 'by-feature':
        flat = flat.sort_values('volt_amp', kind='stable').reset_index(drop=True)
    elif order == 'reversed':
        flat = flat.iloc[::-1].reset_index(drop=True)
    n_rows = len(flat)
    kind = case.get('index', 'range')
    if kind == 'offset':                   # e.g. the table after limit_df, which keeps the original labels
        flat.index = pd.RangeIndex(7, 7 + n_rows)
    elif kind == 'repeated':
        h = (n_rows + 1) // 2
        flat.index = pd.Index(list(range(h)) + list(range(n_rows - h)))
    nm = ref.names(ref.table_center(flat))
    closing = flat[nm['next']].values.astype(int)
    periods = flat['period'].values
    L = pick_epoch_len(case['epoch'], closing, periods, int(closing.max()) + 5)
    last = int(closing.max())
    if case['sig_len'][0] == 'multiple':
        sig_len = L * (-(-(last + case['sig_len'][1] % 7) // L))
    else:
        sig_len = last + 1 + case['sig_len'][1] % 40
    if case.get('many_epochs'):
        # far more epochs than cycles: very short epochs, most of them empty, the recording continuing long after the last cycle
        L = 2 + case['many_epochs'] % 2
        sig_len = max(sig_len, L * (258 + case['many_epochs'] * 7))
    elif sig_len // L > 120:
        L = max(L, -(-sig_len // 120))      # keep the number of epochs bounded (each epoch is a DataFrame)
    keep = flat.copy(deep=True)
    epochs = guarded(epoch_df, flat, sig_len, L)
    ok, why = ref.frames_equal(flat, keep)
    if not ok:
        raise Violation('epoch_df:input-modified', why)
    coincide, empty, spanning, _ = partition_check('epoch_df', keep, epochs, L, sig_len, nm, unordered=(order != 'time'))
    rec.label('rows:' + order, 'index:' + kind, 'table:' + case['table']['kind'], 'center:' + ref.table_center(flat), 'epoch:' + case['epoch'][0],
              'boundary-coincidence' if coincide else 'no-coincidence', 'empty-epoch' if empty else 'no-empty-epoch',
              'burst-spans-boundary' if spanning else 'no-spanning-burst', 'sig_len:' + case['sig_len'][0])
    rec.nontrivial(coincide or empty or spanning)


@st.composite
def strat_epoch_df(draw, tier):
    if draw(st.integers(0, 7)) == 0:
        c = draw(gen.st_analysis_case(max_n=1500, bursty=True))
        c['return_samples'] = True
        table = {'kind': 'real', 'case': c}
    else:
        table = {'kind': 'synthetic', 'recipe': draw(gen_tables.st_table_recipe()), 'method': draw(st.sampled_from(['cycles', 'amp']))}
    return {'table': table, 'index': draw(st.sampled_from(['range', 'range', 'offset', 'repeated'])),
            'row_order': draw(st.sampled_from(['time', 'time', 'time', 'by-feature', 'reversed'])),
            'epoch': [draw(st.sampled_from(['coincide', 'coincide', 'short', 'arbitrary'])), draw(st.integers(0, 500)), draw(st.integers(0, 5))],
            'sig_len': [draw(st.sampled_from(['multiple', 'multiple', 'arbitrary'])), draw(st.integers(0, 100))],
            'many_epochs': draw(st.one_of(st.just(0), st.just(0), st.just(0), st.just(0), st.just(0), st.just(0), st.integers(1, 12)))}


# ------------------------------------------------------------------------------------------------ axis=None

def labels_for(rows, method, th):
    if method == 'cycles':
        return ref.ref_labels_cycles(rows, th)
    th = th or {}
    return ref.ref_labels_amp(rows['burst_fraction'].values, th.get('burst_fraction_threshold', 1), th.get('min_n_cycles', 3))


def check_axis_none(case, rec):
    c = case['base']
    x = gen.render_signal(c['sig'])
    pipeline.expected_cycles(c, x)
    if c['method'] == 'amp':
        pipeline.trusted_burst_mask(c, x)
    probe = pipeline.analyse(c, x, return_samples=True)
    nm = ref.names(c['center'])
    closing = probe[nm['next']].values.astype(int)
    L = pick_epoch_len(case['epoch'], closing, probe['period'].values, len(x) // 2)
    n_ep = len(x) // L
    if n_ep < 1 or n_ep > 60:
        raise Discard('epoch count outside 1..60')
    xs = x[:n_ep * L]
    cc = dict(c)
    cc['sig'] = None
    try:
        pipeline_cols = ref.ref_cycles(xs, c['fs'], tuple(c['f_range']), c['center'], c.get('fek'))
    except Discard:
        raise
    if pipeline_cols is None or len(pipeline_cols[nm['center']]) < 2:
        raise Discard('fewer than three full oscillations after cutting')
    ref.ref_band_amp(xs, c['fs'], tuple(c['f_range']))      # the cut recording must still be longer than the band-amplitude filter
    if c['method'] == 'amp':
        pipeline.trusted_burst_mask(c, xs)
    sigs = xs.reshape(n_ep, L)
    layout = case.get('layout', 'C')
    if layout == 'F':
        sigs = np.asfortranarray(sigs)                 # same values and shape, column-major memory
    elif layout == 'T':
        sigs = np.ascontiguousarray(sigs.T).T          # transposed view of a (L, n_epochs) recording
    kw0 = gen.cf_kwargs(c)
    kw0.pop('return_samples')
    if case['mode'] == 'dict':
        arg = kw0
        ths = None
    elif case['mode'] == 'same-dict-list':
        ths = [case['ths'][0]] * n_ep
        d = gen.cf_kwargs(c)
        d.pop('return_samples')
        d['threshold_kwargs'] = gen.copy_json(ths[0])
        arg = [d] * n_ep                               # one dict object repeated, as a caller writes [kwargs] * n_epochs
        kw0 = dict(kw0, threshold_kwargs=gen.copy_json(ths[0]))
    else:
        ths = case['ths'][:n_ep] + [case['ths'][-1]] * max(0, n_ep - len(case['ths']))
        arg = []
        for k in range(n_ep):
            d = gen.cf_kwargs(c)
            d.pop('return_samples')
            d['threshold_kwargs'] = gen.copy_json(ths[k])
            if case.get('drop_th') and k >= 1 and (case['drop_th'] >> (k % 6)) & 1:
                # an option set without threshold_kwargs: that epoch is labelled with the detector's defaults
                d.pop('threshold_kwargs')
                ths[k] = {}
            if case.get('stray_center') and k >= 1 and (k + case['stray_center']) % 2 == 0:
                # a later epoch's option set names the other centring: documented to be ignored with a warning (the first one is
                # used for the whole recording); everything else in that option set still applies to its epoch
                d['center_extrema'] = 'trough' if c['center'] == 'peak' else 'peak'
            arg.append(d)
        kw0 = dict(kw0, threshold_kwargs=gen.copy_json(ths[0]))
    if c['method'] == 'amp':
        cm = dict(c, th=(kw0.get('threshold_kwargs')))
        if case['mode'] != 'dict' and 'min_n_cycles' in (c.get('bk') or {}):
            raise Discard('per-epoch list with min_n_cycles in the burst options (kept out, see assumptions)')
        pipeline.trusted_burst_mask(cm, xs)
    with warnings.catch_warnings():
        warnings.simplefilter('ignore')
        flat = guarded(compute_features, xs.copy(), c['fs'], tuple(c['f_range']), return_samples=True, **gen.copy_json_kwargs(kw0))
        sig_before = sigs.copy()
        epochs = with_timeout(lambda: guarded(compute_features_2d, sigs, c['fs'], tuple(c['f_range']), compute_features_kwargs=arg,
                                              axis=None, return_samples=True, n_jobs=1), 60)
    if not np.array_equal(sigs, sig_before):
        raise Violation('axis-none:input-array-modified', '')
    coincide, empty, spanning, assignment = partition_check('axis-none', flat, epochs, L, len(xs), nm, compare_labels=(case['mode'] == 'dict'))
    if case['mode'] != 'dict':
        for k, ((p, n), ep) in enumerate(zip(assignment, epochs)):
            if n == 0:
                continue
            want = labels_for(flat.iloc[p:p + n].reset_index(drop=True), c['method'], ths[k])
            got = ep['is_burst'].values
            if not np.array_equal(got, want):
                raise Violation('axis-none:per-epoch-labels', 'epoch %d thresholds %s: %s' % (k, ths[k], ref.first_diff(got, want)))
    if case.get('second_call'):
        # the same argument objects a second time: the partition must be the same
        with warnings.catch_warnings():
            warnings.simplefilter('ignore')
            again = with_timeout(lambda: guarded(compute_features_2d, sigs, c['fs'], tuple(c['f_range']), compute_features_kwargs=arg,
                                                 axis=None, return_samples=True, n_jobs=1), 60)
        if len(again) != len(epochs) or any(not ref.frames_equal(a, b)[0] for a, b in zip(again, epochs)):
            raise Violation('axis-none:second-call-differs', 'mode %s: repeating the call with the same argument objects changes the result' % case['mode'])
    if case.get('other_values') and case['mode'] == 'dict':
        c2 = gen.copy_json({k: v for k, v in c.items() if k != 'sig'})
        c2['sig'] = c['sig']
        fek2 = dict(c2.get('fek') or {})
        nc = (fek2.get('filter_kwargs') or {}).get('n_cycles', 3)
        fek2['filter_kwargs'] = {'n_cycles': {2: 3, 3: 4, 4: 5}.get(nc, 4)}
        c2['fek'] = fek2
        if gen.filt_len_of({'fs': c['fs'], 'f_range': c['f_range']}, fek2['filter_kwargs']) + 8 < len(xs):
            cols2 = ref.ref_cycles(xs, c['fs'], tuple(c['f_range']), c['center'], fek2)
            if cols2 is not None and len(cols2[nm['center']]) >= 2:
                kw2 = gen.cf_kwargs(c2)
                kw2.pop('return_samples')
                with warnings.catch_warnings():
                    warnings.simplefilter('ignore')
                    flat2 = guarded(compute_features, xs.copy(), c['fs'], tuple(c['f_range']), return_samples=True, **gen.copy_json_kwargs(kw2))
                    ep2 = with_timeout(lambda: guarded(compute_features_2d, sigs, c['fs'], tuple(c['f_range']), compute_features_kwargs=kw2,
                                                       axis=None, return_samples=True, n_jobs=1), 60)
                partition_check('axis-none[other option values]', flat2, ep2, L, len(xs), nm)
                rec.label('second-call-other-values')
    rec.label(*gen.case_labels(c))
    rec.label('layout:' + layout, 'second-call' if case.get('second_call') else 'single-call')
    rec.label('mode:' + case['mode'], 'epochs:%s' % ('1' if n_ep == 1 else ('2-5' if n_ep <= 5 else '>5')),
              'boundary-coincidence' if coincide else 'no-coincidence', 'empty-epoch' if empty else 'no-empty-epoch',
              'burst-spans-boundary' if spanning else 'no-spanning-burst')
    rec.nontrivial(coincide or empty or spanning)


@st.composite
def strat_axis_none(draw, tier):
    c = draw(gen.st_analysis_case(max_n=2500, min_periods=14, bursty=draw(st.booleans())))
    c['return_samples'] = True
    mode = draw(st.sampled_from(['dict', 'dict', 'list', 'list', 'same-dict-list']))
    ths = []
    if mode != 'dict':
        if c['method'] == 'cycles':
            ths = [draw(gen.st_thresholds_cycles(allow_none=False)) for _ in range(draw(st.integers(1, 6)))]
        else:
            ths = [{'burst_fraction_threshold': draw(st.sampled_from([0.0, 0.25, 0.5, 0.75, 1.0])),
                    'min_n_cycles': draw(st.integers(0, 4))} for _ in range(draw(st.integers(1, 6)))]
            if c.get('bk'):
                c['bk'].pop('min_n_cycles', None)
    return {'base': c, 'mode': mode, 'ths': ths, 'layout': draw(st.sampled_from(['C', 'C', 'F', 'T'])),
            'second_call': draw(st.integers(0, 3)) == 0, 'stray_center': draw(st.integers(0, 2)), 'drop_th': draw(st.one_of(st.just(0), st.just(0), st.integers(1, 63))), 'other_values': draw(st.integers(0, 2)) == 0,
            'epoch': [draw(st.sampled_from(['coincide', 'coincide', 'short', 'arbitrary', 'arbitrary'])), draw(st.integers(0, 500)), draw(st.integers(0, 5))]}


PARTS = [
    Part('epoch_df', check_epoch_df, strategy=strat_epoch_df, budget={'quick': 2000, 'thorough': 150000}, shards={'quick': 12, 'thorough': 16}),
    Part('axis-none', check_axis_none, strategy=strat_axis_none, budget={'quick': 500, 'thorough': 20000}, shards={'quick': 8, 'thorough': 16}),
]
