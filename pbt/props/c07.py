"""C07 - Amplitude burst labels follow the dual-threshold rule."""
import math

import numpy as np
from hypothesis import strategies as st

import gen
import ref
import pipeline
from harness import Part, Violation, Discard, guarded
from bycycle.burst import detect_bursts_amp

ID = 'C07'
TITLE = 'Amplitude burst labels follow the dual-threshold rule'
REGISTER = True
TECHNIQUE = ('Hypothesis property-based testing of compute_features(burst_method=amp): burst_fraction recomputed per cycle from the '
             'trusted neurodsp dual-threshold mask over [last, next] inclusive, labels from a reference >=-threshold + run filter '
             'with the single resolved min_n_cycles, over all four routings of min_n_cycles; metamorphic threshold monotonicity; enumerated part with compactly stored sample columns (int16 / uint16 / int32 / float64) whose last cycle ends on the largest value of the dtype')
LEVEL_TEXT = ('Generated-input search (1k pipelines quick, 30k thorough) over bursty / partially bursting signals, both centrings, '
              'amp_threshes, burst_fraction_threshold (also exactly at and one ulp above occurring fractions), min_n_cycles via '
              'thresholds / burst options / both (different values) / neither, min_burst_duration, filter_kwargs. Exact comparison.')
RULE = ('Hypothesis: C01 domain restricted to burst_method=amp with bursty recipes over-weighted; burst_fraction_threshold drawn from '
        'a grid, floats, and (second pass on the same table through detect_bursts_amp) exactly at / one ulp above / below a fraction '
        'that occurs in the table. Oracle: burst_fraction[i] == mean(trusted mask[last_i : next_i+1]); is_burst == runs of length >= '
        'resolved count of (fraction >= threshold), resolved count = burst options value if given, else thresholds value, else 3, the '
        'same count being handed to the trusted detector; raising the threshold yields a subset. Non-trivial: some cycle with '
        '0 < burst_fraction < 1 and labels neither all True nor all False. Discarded: inputs on which the trusted detector itself '
        'raises. Distinct = distinct case.')
ASSUMPTIONS = ['neurodsp detect_bursts_dual_threshold is the documented detector (bycycle aliases it); where it raises the oracle is undefined',
               'with min_burst_duration given the sample-wise detector uses the duration (documented), the run filter still uses the resolved count']
TRUSTED = ['numpy', 'neurodsp.burst.detect_bursts_dual_threshold', 'neurodsp.timefrequency.amp_by_time']


@st.composite
def strategy(draw, tier):
    case = draw(gen.st_analysis_case(methods=('amp',), bursty=draw(st.integers(0, 3)) > 0))
    case['return_samples'] = True
    case['probe'] = draw(st.sampled_from(['eq', 'ulp+', 'ulp-', 'eq']))
    case['probe_row'] = draw(st.integers(0, 200))
    case['exact_duration'] = draw(st.integers(0, 2)) > 0
    case['buffer'] = draw(st.integers(0, 4)) == 0
    return case


def exact_duration_thresholds(case, x):
    """Normalised amplitude threshold t such that the supra-threshold period around the envelope maximum lasts EXACTLY the
    minimum burst length ceil(min_n_cycles * fs / f_lo) samples (None if no such t exists): a value on the boundary of the rule."""
    bk = case.get('bk') or {}
    n = pipeline.resolved_min_cycles(case)
    if not n or bk.get('min_burst_duration') is not None:
        return None
    try:
        amp = ref.amp_by_time(np.asarray(x, dtype=float), case['fs'], tuple(case['f_range']), remove_edges=False,
                              **(bk.get('filter_kwargs') or {}))
    except Exception:  # noqa
        return None
    med = np.median(amp)
    if not np.isfinite(med) or med <= 0:
        return None
    mag = amp / med
    mag[[0, -1]] = 0
    K = int(math.ceil(n * case['fs'] / case['f_range'][0]))
    top = int(np.argmax(mag))
    cand = np.unique(mag)
    lo, hi = 0, len(cand) - 1
    while lo <= hi:                       # the run around the maximum shrinks monotonically as t grows
        mid = (lo + hi) // 2
        above = mag >= cand[mid]
        a = top
        while a > 0 and above[a - 1]:
            a -= 1
        b = top
        while b < len(mag) - 1 and above[b + 1]:
            b += 1
        length = b - a + 1
        if length == K:
            return float(cand[mid])
        if length > K:
            lo = mid + 1
        else:
            hi = mid - 1
    return None


def check(case, rec):
    x = gen.render_signal(case['sig'])
    if case.get('exact_duration'):
        t = exact_duration_thresholds(case, x)
        if t is not None and t > 0:
            case = dict(case, bk=dict(case.get('bk') or {}, amp_threshes=[t, t]))
            rec.label('burst-of-exactly-the-minimum-duration')
    pipeline.expected_cycles(case, x)
    mask = pipeline.trusted_burst_mask(case, x)
    if case.get('buffer'):
        # one array object analysed, refilled in place with this recording, analysed again (acquisition buffer)
        import warnings
        from bycycle.features import compute_features
        buf = np.array(x[::-1], dtype=x.dtype, copy=True)
        with warnings.catch_warnings():
            warnings.simplefilter('ignore')
            try:
                compute_features(buf, case['fs'], tuple(case['f_range']), **gen.cf_kwargs(case, return_samples=True))
            except Exception:  # noqa - only the second call is judged
                pass
            buf[:] = x
            df = guarded(compute_features, buf, case['fs'], tuple(case['f_range']), **gen.cf_kwargs(case, return_samples=True))
        rec.label('buffer-refilled')
    else:
        df = pipeline.analyse(case, x, return_samples=True)
    rec.label(*gen.case_labels(case))
    nm = ref.names(case['center'])
    last = df[nm['last']].values.astype(int)
    nxt = df[nm['next']].values.astype(int)
    exp_bf = np.array([np.mean(mask[a:b + 1].astype(int)) for a, b in zip(last, nxt)])
    got_bf = df['burst_fraction'].values.astype(float)
    if not ref.same_float(got_bf, exp_bf):
        raise Violation('burst_fraction', '%s (centre=%s routing=%s bk=%s th=%s)' % (
            ref.first_diff(got_bf, exp_bf), case['center'], case['routing'], case.get('bk'), case.get('th')))
    th = case.get('th') or {}
    thr = th.get('burst_fraction_threshold', 1)
    k = pipeline.resolved_min_cycles(case)
    exp = ref.ref_labels_amp(got_bf, thr, k)
    got = df['is_burst'].values
    if got.dtype != bool:
        raise Violation('is_burst-dtype', str(got.dtype))
    if not np.array_equal(got, exp):
        raise Violation('labels', '%s (thr=%r k=%r routing=%s)' % (ref.first_diff(got, exp), thr, k, case['routing']))
    # threshold exactly at / next to an occurring fraction, and monotonicity, on the fixed table
    v = got_bf[case['probe_row'] % len(got_bf)]
    thr2 = {'eq': v, 'ulp+': min(1.0, math.nextafter(v, 2.0)), 'ulp-': max(0.0, math.nextafter(v, -1.0))}[case['probe']]
    out2 = guarded(detect_bursts_amp, df.copy(), burst_fraction_threshold=thr2, min_n_cycles=k)['is_burst'].values
    exp2 = ref.ref_labels_amp(got_bf, thr2, k)
    if not np.array_equal(out2, exp2):
        raise Violation('labels-at-occurring-fraction', '%s (thr=%r fraction=%r k=%r)' % (ref.first_diff(out2, exp2), thr2, v, k))
    lo, hi = (got, out2) if thr <= thr2 else (out2, got)
    if np.any(hi & ~lo):
        raise Violation('raising-threshold-added-label', 'thr %r vs %r' % (thr, thr2))
    partial = bool(np.any((got_bf > 0) & (got_bf < 1)))
    mixed = bool(got.any() and not got.all())
    rec.label('partial-cycles' if partial else 'no-partial', 'labels:%s' % ('mixed' if mixed else ('all' if got.all() else 'none')),
              'min_burst_duration' if 'min_burst_duration' in (case.get('bk') or {}) else 'no-duration',
              'probe:' + case['probe'])
    rec.nontrivial(partial and mixed)


def enum_dtypes(tier, shard, nshards):
    """cycle tables whose sample columns are stored compactly (pd.to_numeric(downcast=...), int32 from other tools), with a cycle
    that ends exactly on the largest value the dtype holds"""
    idx = 0
    for dt, top in (('int16', 32767), ('uint16', 65535), ('int32', 70000), ('int64', 40000), ('float64', 33000)):
        for center in ('peak', 'trough'):
            for end in (top, top - 1, top - 37):
                idx += 1
                if idx % nshards == shard:
                    yield {'dtype': dt, 'last_end': end, 'center': center, 'period': [100, 64][idx % 2]}


def check_dtypes(case, rec):
    import pandas as pd
    import warnings
    from bycycle.features.burst import compute_burst_fraction
    fs, fr, period, end = 1000, (1000 / case['period'] * 0.8, 1000 / case['period'] * 1.3), case['period'], case['last_end']
    n = end + 1 + 3 * period
    t = np.arange(n)
    x = np.sin(2 * np.pi * t / period) * (1 + 0.9 * np.sin(2 * np.pi * t / (period * 23.7))) + 0.05 * np.cos(t * 1.7)
    sides = np.arange(end % period, end + 1, period)
    nm = ref.names(case['center'])
    df64 = pd.DataFrame({nm['last']: sides[:-1], nm['center']: sides[:-1] + period // 2, nm['next']: sides[1:]}).astype('int64')
    if int(df64[nm['next']].values[-1]) != end:
        raise RuntimeError('construction: last cycle does not end on %d' % end)
    try:
        with warnings.catch_warnings():
            warnings.simplefilter('ignore')
            mask = ref.ref_burst_mask(x, fs, fr, (1, 2), 3, None, None)
    except Exception as exc:  # noqa
        raise Discard('trusted detector raises %s' % type(exc).__name__)
    want = np.array([np.mean(mask[a:b + 1]) for a, b in zip(df64[nm['last']].values, df64[nm['next']].values)])
    df = df64.astype(case['dtype'])
    keep = df.copy(deep=True)
    with warnings.catch_warnings():
        warnings.simplefilter('ignore')
        got = np.asarray(guarded(compute_burst_fraction, df, x.copy(), fs, fr), dtype=float)
    if got.shape != want.shape or not np.array_equal(got, want):
        bad = np.flatnonzero(~((got == want) | (np.isnan(got) & np.isnan(want)))) if got.shape == want.shape else []
        raise Violation('burst_fraction[%s sample columns]' % case['dtype'], 'rows %s of %d differ from the fraction of detector samples in [last, next] (last cycle ends on sample %d)' % (
            list(bad[:5]), len(want), end))
    ok, why = ref.frames_equal(df, keep)
    if not ok:
        raise Violation('burst_fraction:table-modified', why)
    rec.label('dtype:' + case['dtype'], 'ends-on-dtype-max' if end in (32767, 65535) else 'below-dtype-max')
    rec.nontrivial(case['dtype'] != 'int64')


PARTS = [Part('sample-dtypes', check_dtypes, enum=enum_dtypes, shards={'quick': 6, 'thorough': 6}, exhaustive=True, time_cap={'quick': 120, 'thorough': 300}),
         Part('amp-pipeline', check, strategy=strategy, budget={'quick': 1600, 'thorough': 30000},
              shards={'quick': 16, 'thorough': 16})]
