"""C15 - Analysis functions are pure: no input mutation, no call-history dependence."""
import copy
import warnings

import numpy as np
import pandas as pd
from hypothesis import strategies as st

import gen
import ref
import group_common as gc
from harness import Part, Violation, Discard, with_timeout
import isolate

from bycycle.features import compute_features, compute_shape_features, compute_cyclepoints, compute_burst_features
from bycycle.features.burst import (compute_amp_fraction, compute_amp_consistency, compute_period_consistency,
                                    compute_monotonicity, compute_burst_fraction)
from bycycle.cyclepoints import find_extrema, find_zerox, extrema_interpolated_phase
from bycycle.group import compute_features_2d, compute_features_3d
from bycycle.burst import recompute_edges
from bycycle.utils import limit_df, epoch_df, drop_samples_df
from bycycle.plts import (plot_burst_detect_summary, plot_burst_detect_param, plot_cyclepoints_df, plot_cyclepoints_array,
                          plot_feature_hist, plot_feature_categorical)

ID = 'C15'
TITLE = 'Analysis functions are pure: no input mutation, no call-history dependence'
REGISTER = True
TECHNIQUE = ('history-based property testing: Hypothesis draws sequences of public API calls that SHARE one signal array, one set of '
             'option dictionaries and the tables produced by earlier calls; after every call a deep snapshot of each argument object is '
             'compared with the one taken before, the result is compared with the same call executed on deep copies in a process without '
             'any call history (forked from a server started before the shard ran any analysis code) and with an immediate repetition')
LEVEL_TEXT = ('Generated-history search: 400 sequences of 2-12 calls over 26 API functions (quick), 12k (thorough), both burst methods and '
              'centrings, dict / list group options, tables passed to several consumers, read-only and strided signal views. '
              'Sampling, not exhaustive.')
RULE = ('Hypothesis: a context (signal, 2-D / 3-D stacks of distinct signals, fs, band, shared burst_kwargs / threshold_kwargs / '
        'find_extrema_kwargs / compute_features_kwargs objects) and a list of calls drawn from compute_features, compute_shape_features, '
        'compute_cyclepoints, compute_burst_features, the four burst-feature functions, compute_burst_fraction, find_extrema, find_zerox, '
        'extrema_interpolated_phase, compute_features_2d (axis 0 / None), compute_features_3d, recompute_edges, limit_df, epoch_df, '
        'drop_samples_df and the six plotting functions. Oracle (a): arrays (bytes, dtype, shape), dictionaries (deep equality, key order) and '
        'tables (values, dtypes, column order, index) passed to a call are unchanged afterwards; (b) the call returns the same value as in a '
        'pristine world where the same history is replayed on deep copies, call by call, and as when repeated at once. Non-trivial: >= 2 '
        'calls sharing a dictionary, one of them burst_method=amp; or a table passed to >= 2 consumers. Distinct = distinct history.')
ASSUMPTIONS = ['functions documented to extend the table they are given (detect_bursts_cycles / detect_bursts_amp add is_burst) and '
               'split_samples_df / flatten_dfs are not in the property\'s list and are not called here',
               'a call that raises is not a purity violation by itself (its arguments are still compared)']
TRUSTED = ['numpy', 'pandas', 'copy.deepcopy']


# ------------------------------------------------------------------------------------------------ snapshots

def snap(o):
    if isinstance(o, np.ndarray):
        return ('arr', o.dtype.str, o.shape, o.tobytes())
    if isinstance(o, pd.DataFrame):
        return ('df', list(o.columns), [str(t) for t in o.dtypes], o.index.tolist(),
                [snap(o[c].values) for c in o.columns])
    if isinstance(o, dict):
        return ('dict', [(k, snap(v)) for k, v in o.items()])
    if isinstance(o, (list, tuple)):
        return (type(o).__name__, [snap(v) for v in o])
    if isinstance(o, (np.generic,)):
        return ('np', o.item())
    return ('v', repr(o))


def describe_change(before, after):
    if before[0] != after[0]:
        return 'type changed'
    if before[0] == 'dict':
        kb, ka = [k for k, _ in before[1]], [k for k, _ in after[1]]
        if kb != ka:
            return 'keys %s -> %s' % (kb, ka)
        for (k, b), (_, a) in zip(before[1], after[1]):
            if a != b:
                return 'key %r: %s' % (k, describe_change(b, a))
    if before[0] == 'df':
        if before[1] != after[1]:
            return 'columns %s -> %s' % (before[1], after[1])
        if before[3] != after[3]:
            return 'index changed'
        for c, b, a in zip(before[1], before[4], after[4]):
            if a != b:
                return 'column %s changed' % c
    if before[0] in ('list', 'tuple'):
        if len(before[1]) != len(after[1]):
            return 'length %d -> %d' % (len(before[1]), len(after[1]))
        for i, (b, a) in enumerate(zip(before[1], after[1])):
            if a != b:
                return '[%d]: %s' % (i, describe_change(b, a))
    if before[0] == 'arr':
        return 'array contents changed'
    return '%r -> %r' % (before[1:], after[1:])


def same_result(a, b):
    if isinstance(a, pd.DataFrame) or isinstance(b, pd.DataFrame):
        return isinstance(a, pd.DataFrame) and isinstance(b, pd.DataFrame) and ref.frames_equal(a, b)[0] and a.index.equals(b.index)
    if isinstance(a, (list, tuple)) or isinstance(b, (list, tuple)):
        return type(a) == type(b) and len(a) == len(b) and all(same_result(x, y) for x, y in zip(a, b))
    if isinstance(a, np.ndarray) or isinstance(b, np.ndarray):
        a, b = np.asarray(a), np.asarray(b)
        if a.shape != b.shape:
            return False
        return ref.same_float(a, b) if a.dtype.kind == 'f' or b.dtype.kind == 'f' else bool(np.array_equal(a, b))
    if isinstance(a, pd.Series) or isinstance(b, pd.Series):
        return same_result(np.asarray(a), np.asarray(b))
    if isinstance(a, dict):
        return isinstance(b, dict) and list(a) == list(b) and all(same_result(a[k], b[k]) for k in a)
    return a == b or (a is None and b is None)


# ------------------------------------------------------------------------------------------------ worlds

class World:
    """the argument objects a caller would keep around and reuse"""

    def __init__(self, case):
        fs, fr = case['fs'], tuple(case['f_range'])
        self.fs, self.fr = fs, fr
        base = [gen.render_signal(s) for s in case['signals']]
        x = base[0]
        if case['sig_view'] == 'readonly':
            x = x.copy(); x.setflags(write=False)
        elif case['sig_view'] == 'strided':
            buf = np.zeros(2 * len(x)); buf[::2] = x; x = buf[::2]
        self.sig = x
        self.sigs2d = np.array(base[:3])
        self.sigs3d = np.array([base[:2], base[2:4]])
        self.bk_amp = gc.materialise({'burst_kwargs': gen.copy_json(case['bk'])})['burst_kwargs']
        self.th_cyc = gen.copy_json(case['th_cyc'])
        self.th_amp = gen.copy_json(case['th_amp'])
        self.fek = gen.copy_json(case['fek'])
        self.center = case['center']
        self.group_kw_cyc = {'center_extrema': self.center, 'burst_method': 'cycles', 'threshold_kwargs': gen.copy_json(case['th_cyc']),
                             'find_extrema_kwargs': gen.copy_json(case['fek'])}
        self.group_kw_amp = {'center_extrema': self.center, 'burst_method': 'amp', 'threshold_kwargs': gen.copy_json(case['th_amp']),
                             'burst_kwargs': gc.materialise({'burst_kwargs': gen.copy_json(case['bk'])})['burst_kwargs']}
        self.group_list = [copy.deepcopy(self.group_kw_cyc), copy.deepcopy(self.group_kw_amp), copy.deepcopy(self.group_kw_cyc)]
        self.tables = {}       # name -> DataFrame produced by an earlier call

    def table(self, kind):
        """a table of the wanted kind produced earlier in this world (or None)"""
        return self.tables.get(kind)


def view(w, op):
    """x-limits on the sample grid for the plotting calls (None in a third of the cases)"""
    if op % 3 == 0:
        return None
    n = len(w.sig)
    a = (op * 13) % max(1, n // 2)
    b = min(n, a + n // 3 + (op * 7) % max(1, n // 2))
    return (a / w.fs, b / w.fs)


def call_spec(name, w, op):
    """-> (function, args list of (label, object), kwargs dict of label -> object) using the world's SHARED objects"""
    fs, fr = w.fs, w.fr
    if name == 'compute_features[cycles]':
        return compute_features, [('sig', w.sig), ('fs', fs), ('f_range', fr)], dict(center_extrema=w.center, burst_method='cycles',
            threshold_kwargs=w.th_cyc, find_extrema_kwargs=w.fek, return_samples=True), 'cyc'
    if name == 'compute_features[amp]':
        return compute_features, [('sig', w.sig), ('fs', fs), ('f_range', fr)], dict(center_extrema=w.center, burst_method='amp',
            burst_kwargs=w.bk_amp, threshold_kwargs=w.th_amp, find_extrema_kwargs=w.fek, return_samples=True), 'amp'
    if name == 'compute_features[amp,nosamples]':
        return compute_features, [('sig', w.sig), ('fs', fs), ('f_range', fr)], dict(center_extrema=w.center, burst_method='amp',
            burst_kwargs=w.bk_amp, threshold_kwargs=w.th_amp, return_samples=False), None
    if name == 'compute_shape_features':
        return compute_shape_features, [('sig', w.sig), ('fs', fs), ('f_range', fr)], dict(center_extrema=w.center, find_extrema_kwargs=w.fek), 'shape'
    if name == 'compute_shape_features[n_cycles]':
        # the documented n_cycles argument with default extrema settings
        return compute_shape_features, [('sig', w.sig), ('fs', fs), ('f_range', fr)], dict(center_extrema=w.center, n_cycles=[2, 4, 5][op % 3]), None
    if name == 'compute_features[boundary-only]':
        if not hasattr(w, 'fek_boundary'):
            w.fek_boundary = {'boundary': 4}
        return compute_features, [('sig', w.sig), ('fs', fs), ('f_range', fr)], dict(center_extrema=w.center, threshold_kwargs=w.th_cyc,
                                                                                       find_extrema_kwargs=w.fek_boundary), None
    if name == 'compute_features[rejected]':
        # invalid settings (filter far longer than the recording): the call raises; its arguments must survive that too
        if not hasattr(w, 'fek_bad'):
            w.fek_bad = {'filter_kwargs': {'n_cycles': 5000}}
        return compute_features, [('sig', w.sig), ('fs', fs), ('f_range', fr)], dict(center_extrema=['trough', 'peak'][op % 2], threshold_kwargs=w.th_cyc,
                                                                                       find_extrema_kwargs=w.fek_bad), None
    if name == 'compute_features[amp,one-dict-twice]':
        # ONE dict object handed over as both the burst options and the thresholds (min_n_cycles is a key of both)
        if not hasattr(w, 'both_dict'):
            w.both_dict = {'min_n_cycles': 2 + op % 3}
        return compute_features, [('sig', w.sig), ('fs', fs), ('f_range', fr)], dict(center_extrema=w.center, burst_method='amp',
                                                                                       burst_kwargs=w.both_dict, threshold_kwargs=w.both_dict), None
    if name == 'compute_features[defaults]':
        return compute_features, [('sig', w.sig), ('fs', fs), ('f_range', fr)], dict(center_extrema=w.center), None
    if name == 'compute_cyclepoints':
        return compute_cyclepoints, [('sig', w.sig), ('fs', fs), ('f_range', fr)], dict(w.fek), 'points'
    if name == 'find_extrema':
        return find_extrema, [('sig', w.sig), ('fs', fs), ('f_range', fr)], dict(boundary=w.fek.get('boundary', 0), **({'filter_kwargs': w.fek['filter_kwargs']} if 'filter_kwargs' in w.fek else {})), 'extrema'
    if name == 'compute_features_2d[0,dict]':
        return compute_features_2d, [('sigs', w.sigs2d), ('fs', fs), ('f_range', fr)], dict(compute_features_kwargs=w.group_kw_amp if op % 2 else w.group_kw_cyc, axis=0, n_jobs=1 + op % 2), None
    if name == 'compute_features_2d[0,list]':
        return compute_features_2d, [('sigs', w.sigs2d), ('fs', fs), ('f_range', fr)], dict(compute_features_kwargs=w.group_list, axis=0, n_jobs=2), None
    if name == 'compute_features_2d[None,list]':
        if not hasattr(w, 'epoch_list'):
            w.epoch_list = [copy.deepcopy(w.group_kw_cyc) for _ in range(len(w.sigs2d))]
            for i, d in enumerate(w.epoch_list):
                d['threshold_kwargs'] = dict(d['threshold_kwargs'], min_n_cycles=1 + i % 3)
        return compute_features_2d, [('sigs', w.sigs2d), ('fs', fs), ('f_range', fr)], dict(compute_features_kwargs=w.epoch_list, axis=None), None
    if name == 'compute_features_2d[None]':
        return compute_features_2d, [('sigs', w.sigs2d), ('fs', fs), ('f_range', fr)], dict(compute_features_kwargs=w.group_kw_cyc, axis=None), None
    if name == 'compute_features_3d':
        axis = [0, 1, (0, 1)][op % 3]
        return compute_features_3d, [('sigs', w.sigs3d), ('fs', fs), ('f_range', fr)], dict(compute_features_kwargs=w.group_kw_amp if op % 2 else w.group_kw_cyc, axis=axis, n_jobs=1), None
    # ---- consumers of earlier tables
    t_cyc, t_amp, t_shape, t_pts, t_ext = w.table('cyc'), w.table('amp'), w.table('shape'), w.table('points'), w.table('extrema')
    t_any = t_cyc if (op % 2 == 0 and t_cyc is not None) else (t_amp if t_amp is not None else t_cyc)
    if name == 'compute_burst_features[cycles]' and t_shape is not None:
        return compute_burst_features, [('df_shape_features', t_shape), ('sig', w.sig)], dict(burst_method='cycles'), None
    if name == 'compute_burst_features[amp]' and t_shape is not None:
        if 'fs' not in w.bk_amp:
            w.bk_amp_full = getattr(w, 'bk_amp_full', None) or dict(w.bk_amp, fs=fs, f_range=fr)
        return compute_burst_features, [('df_shape_features', t_shape), ('sig', w.sig)], dict(burst_method='amp', burst_kwargs=w.bk_amp_full), None
    if name in ('compute_burst_fraction[float-samples]', 'compute_burst_features[amp,float-samples]') and t_shape is not None:
        # a table whose sample columns hold whole numbers as float64 (what pandas hands back after a reindex / outer concat / CSV
        # round trip with a blank line): same values, and the caller's table keeps its dtypes
        if getattr(w, 'shape_float_src', None) is not t_shape:
            w.shape_float_src = t_shape
            w.shape_float = t_shape.copy()
            for col_ in [c_ for c_ in w.shape_float.columns if c_.startswith('sample_')]:
                w.shape_float[col_] = w.shape_float[col_].astype('float64')
        if name.startswith('compute_burst_fraction'):
            return compute_burst_fraction, [('df', w.shape_float), ('sig', w.sig), ('fs', fs), ('f_range', fr)], dict(w.bk_amp), None
        w.bk_amp_full = getattr(w, 'bk_amp_full', None) or dict(w.bk_amp, fs=fs, f_range=fr)
        return compute_burst_features, [('df_shape_features', w.shape_float), ('sig', w.sig)], dict(burst_method='amp', burst_kwargs=w.bk_amp_full), None
    if name == 'compute_amp_fraction' and t_shape is not None:
        return compute_amp_fraction, [('df', t_shape)], {}, None
    if name == 'compute_amp_consistency' and t_shape is not None:
        return compute_amp_consistency, [('df', t_shape)], dict(direction=['both', 'next', 'last'][op % 3]), None
    if name == 'compute_period_consistency' and t_shape is not None:
        return compute_period_consistency, [('df', t_shape)], dict(direction=['both', 'next', 'last'][op % 3]), None
    if name == 'compute_monotonicity' and t_shape is not None:
        return compute_monotonicity, [('df', t_shape), ('sig', w.sig)], {}, None
    if name == 'compute_burst_fraction' and t_shape is not None:
        return compute_burst_fraction, [('df', t_shape), ('sig', w.sig), ('fs', fs), ('f_range', fr)], dict(w.bk_amp), None
    if name == 'find_zerox' and t_ext is not None:
        return find_zerox, [('sig', w.sig), ('peaks', t_ext[0]), ('troughs', t_ext[1])], {}, None
    if name == 'extrema_interpolated_phase' and t_ext is not None:
        return extrema_interpolated_phase, [('sig', w.sig), ('peaks', t_ext[0]), ('troughs', t_ext[1])], {}, None
    if name == 'recompute_edges' and t_cyc is not None:
        # either the thresholds the table was made with, or relaxed ones (a table without bursts then gains some)
        if not hasattr(w, 'th_relaxed'):
            w.th_relaxed = {'amp_fraction_threshold': 0.0, 'amp_consistency_threshold': 0.1, 'period_consistency_threshold': 0.1,
                            'monotonicity_threshold': 0.1, 'min_n_cycles': 1}
        return recompute_edges, [('df_features', t_cyc), ('threshold_kwargs', w.th_relaxed if op % 2 else w.th_cyc)], {}, None
    if name == 'limit_df' and t_any is not None:
        n = len(w.sig)
        a, b = sorted([(op * 37) % n, (op * 91 + n // 2) % n])
        start = [None, a / fs, 0.0][op % 3]
        stop = [b / fs, None, (n - 1) / fs][op % 3] if op % 5 else None
        if op % 4 == 3:
            # a window that starts a little after t = 0 and still encloses every cycle of the table
            side_cols = [c_ for c_ in t_any.columns if c_.startswith('sample_last_') and 'zerox' not in c_]
            first_side = int(t_any[side_cols[0]].min()) if side_cols and len(t_any) else 0
            if first_side >= 2:
                start, stop = (first_side // 2) / fs, None
        return limit_df, [('df', t_any), ('fs', fs)], dict(start=start, stop=stop, reset_indices=bool(op % 2)), None
    if name == 'epoch_df' and t_any is not None:
        n = len(w.sig)
        return epoch_df, [('df_features', t_any), ('sig_len', n), ('epoch_len', max(8, n // (2 + op % 5)))], {}, None
    if name == 'drop_samples_df' and t_any is not None:
        return drop_samples_df, [('df_features', t_any)], {}, None
    if name == 'plot_burst_detect_summary' and t_cyc is not None:
        th = {k: v for k, v in w.th_cyc.items()}
        w.plot_th = getattr(w, 'plot_th', None) or th
        return plot_burst_detect_summary, [('df_features', t_cyc), ('sig', w.sig), ('fs', fs), ('threshold_kwargs', w.plot_th)], dict(plot_only_result=bool(op % 2), interp=bool(op % 3), xlim=view(w, op)), None
    if name in ('plot_burst_detect_summary[flat]', 'plot_cyclepoints_df[flat]') and t_cyc is not None:
        # a disconnected channel: a perfectly flat trace with an offset, drawn with the table of a neighbouring channel
        if not hasattr(w, 'flat'):
            w.flat = np.full(len(w.sig), 2.5)
        if name.startswith('plot_burst'):
            w.plot_th = getattr(w, 'plot_th', None) or {k: v for k, v in w.th_cyc.items()}
            return plot_burst_detect_summary, [('df_features', t_cyc), ('sig', w.flat), ('fs', fs), ('threshold_kwargs', w.plot_th)], dict(plot_only_result=bool(op % 2), xlim=view(w, op)), None
        return plot_cyclepoints_df, [('df_samples', t_cyc), ('sig', w.flat), ('fs', fs)], dict(xlim=view(w, op)), None
    if name == 'plot_burst_detect_param' and t_cyc is not None:
        return plot_burst_detect_param, [('df_features', t_cyc), ('sig', w.sig), ('fs', fs), ('burst_param', 'monotonicity'), ('thresh', 0.5)], dict(interp=bool(op % 2), xlim=view(w, op)), None
    if name == 'plot_cyclepoints_df' and t_any is not None:
        return plot_cyclepoints_df, [('df_samples', t_any), ('sig', w.sig), ('fs', fs)], dict(plot_zerox=bool(op % 2), plot_sig=bool(op % 3), xlim=view(w, op)), None
    if name == 'plot_cyclepoints_array' and t_ext is not None:
        return plot_cyclepoints_array, [('sig', w.sig), ('fs', fs)], dict(peaks=t_ext[0], troughs=t_ext[1], xlim=view(w, op)), None
    if name == 'plot_feature_hist' and t_any is not None:
        return plot_feature_hist, [('feature', t_any), ('param_label', 'volt_amp')], dict(only_bursts=bool(op % 2)), None
    if name == 'plot_feature_categorical' and t_any is not None:
        return plot_feature_categorical, [('df_features', t_any), ('param_label', 'period')], {}, None
    return None


PRODUCERS = ['compute_features[cycles]', 'compute_features[amp]', 'compute_shape_features', 'compute_cyclepoints', 'find_extrema']
CALLS = PRODUCERS + ['compute_shape_features[n_cycles]', 'compute_features[boundary-only]', 'compute_features[defaults]', 'compute_features[rejected]', 'compute_features[amp,nosamples]', 'compute_features_2d[0,dict]', 'compute_features_2d[0,list]', 'compute_features_2d[None]', 'compute_features_2d[None,list]',
                     'compute_features_3d', 'compute_burst_features[cycles]', 'compute_burst_features[amp]', 'compute_amp_fraction',
                     'compute_amp_consistency', 'compute_period_consistency', 'compute_monotonicity', 'compute_burst_fraction', 'find_zerox',
                     'extrema_interpolated_phase', 'recompute_edges', 'limit_df', 'epoch_df', 'drop_samples_df', 'plot_burst_detect_summary',
                     'plot_burst_detect_param', 'plot_cyclepoints_df', 'plot_cyclepoints_array', 'plot_feature_hist', 'plot_feature_categorical',
                     'compute_burst_fraction[float-samples]', 'compute_burst_features[amp,float-samples]', 'plot_burst_detect_summary[flat]', 'compute_features[amp,one-dict-twice]',
                     'plot_cyclepoints_df[flat]']


def run_call(fn, args, kwargs):
    import matplotlib.pyplot as plt
    try:
        with warnings.catch_warnings():
            warnings.simplefilter('ignore')
            res = with_timeout(lambda: fn(*[a for _, a in args], **kwargs), 120)
        return 'ok', res
    except Discard:
        raise
    except Exception as exc:  # noqa
        return type(exc).__name__, str(exc)[:120]
    finally:
        plt.close('all')


ZYGOTE = None


def clean_process_call(fn, args, kwargs):
    """the call executed in a process without any call history (see isolate.Zygote); -> outcome tuple like run_call"""
    global ZYGOTE
    if ZYGOTE is None:
        ZYGOTE = isolate.Zygote()          # forked before this shard has run any analysis code
    res = ZYGOTE.call(fn, [a for _, a in args], kwargs)
    if res[0] == 'ok':
        return 'ok', res[1]
    if res[0] == 'raises':
        return res[1], res[2]
    if res[0] == 'timeout':
        raise Discard('clean-process call did not return (inconclusive)')
    return None                             # server lost / crashed: fall back to the in-process replay


def check(case, rec):
    if ZYGOTE is None:
        clean_process_call(len, [('x', [])], {})     # start the server now, before anything else runs
    shared = World(case)
    pristine_case = copy.deepcopy(case)
    pristine = World(pristine_case)      # replays the same history on objects that are deep-copied before every call
    amp_calls = dict_users = 0
    table_consumers = {}
    executed = []
    for step, (name, op) in enumerate(case['calls']):
        spec = call_spec(name, shared, op)
        if spec is None:
            continue
        fn, args, kwargs, produces = spec
        executed.append(name)
        objs = [(lab, o) for lab, o in args] + [(k, v) for k, v in kwargs.items()]
        before = [(lab, snap(o)) for lab, o in objs]
        out = run_call(fn, args, kwargs)
        for (lab, o), (_, b) in zip(objs, before):
            a = snap(o)
            if a != b:
                raise Violation('mutates:%s:%s' % (name.split('[')[0], lab), 'step %d %s: argument %r changed: %s (history %s)' % (
                    step, name, lab, describe_change(b, a), executed))
        # pristine world: same call on deep copies of objects that only ever saw deep-copied use
        pspec = call_spec(name, pristine, op)
        pfn, pargs, pkwargs, _ = pspec
        pout = clean_process_call(pfn, [(l, copy.deepcopy(o)) for l, o in pargs], copy.deepcopy(pkwargs))
        if pout is None:
            rec.label('clean-process-unavailable')
            pout = run_call(pfn, [(l, copy.deepcopy(o)) for l, o in pargs], copy.deepcopy(pkwargs))
        if out[0] != pout[0]:
            raise Violation('history-dependent:%s' % name.split('[')[0], 'step %d %s: %s after the history %s, %s when called on untouched copies (%s)' % (
                step, name, out[0], executed, pout[0], out[1] if out[0] != 'ok' else pout[1]))
        if out[0] == 'ok' and not same_result(out[1], pout[1]):
            raise Violation('history-dependent:%s' % name.split('[')[0], 'step %d %s: result differs from the same call on untouched copies (history %s)' % (step, name, executed))
        # immediate repetition with the same argument objects
        again = run_call(fn, args, kwargs)
        if again[0] != out[0] or (out[0] == 'ok' and not same_result(out[1], again[1])):
            raise Violation('repeat-differs:%s' % name.split('[')[0], 'step %d %s: %s then %s with the same argument objects' % (step, name, out[0], again[0]))
        if out[0] != 'ok':
            rec.label('raises:%s:%s' % (name.split('[')[0], out[0]))
        if produces and out[0] == 'ok':
            shared.tables[produces] = out[1]
            pristine.tables[produces] = pout[1]
        if case.get('refill') and step == case['refill'] % max(1, len(case['calls'])) and shared.sig.flags.writeable:
            # the caller refills the SAME signal buffer with another recording (its array, its right); later results must
            # be those of the new contents
            other = gen.render_signal(case['signals'][1]).astype(shared.sig.dtype)
            shared.sig[:] = other[:len(shared.sig)]
            pristine.sig[:] = other[:len(pristine.sig)]
            executed.append('<signal refilled in place>')
        if 'amp' in name:
            amp_calls += 1
        if name.startswith('compute_features') or name.startswith('compute_burst') or name == 'recompute_edges':
            dict_users += 1
        for lab, o in args:
            if isinstance(o, pd.DataFrame):
                table_consumers[id(o)] = table_consumers.get(id(o), 0) + 1
    for n in set(executed):
        rec.label('call:' + n.split('[')[0])
    shared_table = any(v >= 2 for v in table_consumers.values())
    rec.label('signal-refilled' if '<signal refilled in place>' in executed else 'signal-constant')
    rec.label('calls:%d' % len([e for e in executed if not e.startswith('<')]), 'amp' if amp_calls else 'no-amp', 'table-shared' if shared_table else 'no-shared-table',
              'sig:' + case['sig_view'])
    rec.nontrivial((dict_users >= 2 and amp_calls >= 1) or shared_table)


@st.composite
def strategy(draw, tier):
    band, n = draw(gc.st_group_base(max_len=600))
    signals = [draw(gc.st_row_signal(band, n, k)) for k in range(4)]
    # producers first (their tables / extrema feed the consumers), then a mix of consumers and further producers
    prods = [p for p in PRODUCERS if draw(st.integers(0, 9)) < 6] or [draw(st.sampled_from(PRODUCERS))]
    prods = draw(st.permutations(prods))
    calls = [[p, draw(st.integers(0, 50))] for p in prods]
    calls += [[draw(st.sampled_from(CALLS)), draw(st.integers(0, 50))] for _ in range(draw(st.integers(1, 7)))]
    bk = {}
    if draw(st.booleans()):
        bk['amp_threshes'] = draw(st.sampled_from([[0.5, 1], [1, 2], [0.8, 1.5]]))
    if draw(st.booleans()):
        bk['min_n_cycles'] = draw(st.integers(1, 6))
    if draw(st.integers(0, 2)) == 0:
        # a nested options dict of the caller's: filter settings for the amplitude detector
        bk['filter_kwargs'] = draw(st.sampled_from([{'n_cycles': 3}, {'filter_type': 'fir'}, {'avg_type': 'mean'}, {'n_cycles': 4, 'filter_type': 'fir'}]))
    th_amp = {'burst_fraction_threshold': draw(st.sampled_from([0.5, 0.9, 1]))}
    if draw(st.booleans()):
        th_amp['min_n_cycles'] = draw(st.integers(1, 4))
    th_cyc = {'amp_fraction_threshold': 0.0, 'amp_consistency_threshold': draw(st.sampled_from([0.2, 0.4, 0.6, 0.95])),
              'period_consistency_threshold': draw(st.sampled_from([0.3, 0.5, 0.95])), 'monotonicity_threshold': draw(st.sampled_from([0.3, 0.6, 1.0])),
              'min_n_cycles': draw(st.integers(1, 3))}
    fk = draw(st.sampled_from([{'n_cycles': 2}, {'n_cycles': 3}, {'n_cycles': 4}, {}, {}, 'n_seconds', None]))
    if fk == 'n_seconds':
        fk = {'n_seconds': 3.0 / band['f_range'][0]}
    fek = {} if fk is None else {'filter_kwargs': fk}
    if draw(st.booleans()):
        fek['boundary'] = draw(st.sampled_from([0, 2, 5]))
    return {'fs': band['fs'], 'f_range': band['f_range'], 'signals': signals, 'calls': calls, 'bk': bk, 'th_amp': th_amp, 'th_cyc': th_cyc,
            'fek': fek, 'center': draw(st.sampled_from(['peak', 'trough'])), 'sig_view': draw(st.sampled_from(['plain', 'plain', 'readonly', 'strided'])),
            'refill': draw(st.one_of(st.none(), st.integers(0, 6)))}


PARTS = [Part('call-histories', check, strategy=strategy, budget={'quick': 400, 'thorough': 12000}, shards={'quick': 16, 'thorough': 16},
              time_cap={'quick': 200, 'thorough': 3000})]
