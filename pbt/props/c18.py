"""C18 - Table and signal windowing utilities are lossless selections."""
import numpy as np
import pandas as pd
from hypothesis import strategies as st

import gen
import gen_tables
import ref
import pipeline
from harness import Part, Violation, Discard, guarded
from bycycle.utils import limit_df, limit_signal
from bycycle.utils.dataframes import split_samples_df, drop_samples_df, flatten_dfs

ID = 'C18'
TITLE = 'Table and signal windowing utilities are lossless selections'
REGISTER = True
TECHNIQUE = ('Hypothesis property-based testing of limit_df, limit_signal, split_samples_df / drop_samples_df and flatten_dfs against '
             'selection oracles (subsequence, must-contain / must-not-contain sets, uniform sample shift, value identity, label of '
             'origin), on synthetic tables of both centrings and on tables from generated signals')
LEVEL_TEXT = ('Generated-input search: 5k limit_df cases, 3k limit_signal cases, 2k split/drop cases, 2k flatten cases (quick); 100k / '
              '60k / 30k / 40k (thorough). Limits are k/fs with k on a cycle boundary, strictly between, outside, or omitted; the window '
              'membership of a cycle is evaluated in seconds (sample / fs against the limits), exactly as the statement reads.')
RULE = ('limit_df: synthetic tables (1..25 rows, both centrings, consistency or amplitude columns; row labels fresh / offset / repeated as after concat / reversed) and 1/8 '
        'real tables; fs from a list including 100 and 441; start/stop each None / sample of a side extremum / arbitrary sample / beyond '
        'the table, start <= stop; reset_indices both. Oracle: rows are a subsequence (identified by their unique closing extremum), '
        'every cycle with start <= last/fs and next/fs <= stop is present, none with next/fs < start or last/fs > stop; non-sample columns '
        'identical; every sample_* column shifted by one common offset (0 without reset, the start sample with reset when exact); input '
        'untouched. limit_signal: times = arange(n)/fs or irregular increasing times; returns exactly start <= t < stop. split/drop: '
        'column partition by prefix, values identical, extra columns kept. flatten_dfs: 1-D / 2-D lists with empty tables, labels as '
        'list / array / 2-D list of str or int; row count, order, per-row label. Non-trivial: omitted limit, trough-centred table, a '
        'limit exactly on a cycle boundary, an empty table inside a list. Distinct = distinct case.')
ASSUMPTIONS = ['0 <= start <= stop (the documented range); tables carry sample columns',
               'split_samples_df needs at least one sample_ column; arguments are handed over as copies (purity is C15)']
TRUSTED = ['numpy', 'pandas']

FS = [100, 100, 250, 441, 500, 1000, 128, 333.3]


def sample_columns(df):
    return [c for c in df.columns if c.startswith('sample_')]


# ------------------------------------------------------------------------------------------------ limit_df

def resolve_limit(spec, df, nm):
    """spec -> integer sample k (or None)"""
    if spec is None:
        return None
    kind, v = spec
    sides = np.unique(np.concatenate([df[nm['last']].values, df[nm['next']].values]))
    if kind == 'side':
        return int(sides[v % len(sides)])
    if kind == 'inside':
        lo, hi = int(sides[0]), int(sides[-1])
        return int(lo + v % max(1, hi - lo + 1))
    if kind == 'before':
        return max(0, int(sides[0]) - 1 - v % 5)
    return int(sides[-1]) + 1 + v % 50


def make_index(kind, n):
    """row labels as they occur in practice: fresh, filtered (offset), concatenated without ignore_index (repeated), reversed"""
    if kind == 'offset':
        return pd.RangeIndex(3, 3 + n)
    if kind == 'repeated':
        h = (n + 1) // 2
        return pd.Index(list(range(h)) + list(range(n - h)))
    if kind == 'reversed':
        return pd.Index(list(range(n))[::-1])
    return pd.RangeIndex(n)


def check_limit_df(case, rec):
    if case['table']['kind'] == 'synthetic':
        df = gen_tables.build_table(case['table']['recipe'], method=case['table']['method'])
    else:
        c = case['table']['case']
        x = gen.render_signal(c['sig'])
        pipeline.expected_cycles(c, x)
        if c['method'] == 'amp':
            pipeline.trusted_burst_mask(c, x)
        df = pipeline.analyse(c, x, return_samples=True)
    if case.get('row_order') == 'by-feature':        # a table ranked by a feature (df.sort_values): rows no longer in time order
        df = df.sort_values('volt_amp', kind='stable').reset_index(drop=True) if 'volt_amp' in df.columns else df
    elif case.get('row_order') == 'reversed':
        df = df.iloc[::-1].reset_index(drop=True)
    df.index = make_index(case['index'], len(df))
    fs = case['fs']
    if case.get('late'):
        # cycles late in a long recording (beyond 2**24 / 2**31 samples: products with fs are no longer exact in single precision,
        # nor within an absolute tolerance)
        off = [2 ** 24 + 3, 30720000, 2 ** 31 + 12345, 10 ** 10][case['late'] % 4]
        for col_ in sample_columns(df):
            df[col_] = df[col_].astype('int64') + off
    center = ref.table_center(df)
    nm = ref.names(center)
    ks, ke = resolve_limit(case['start'], df, nm), resolve_limit(case['stop'], df, nm)
    if ks is not None and ke is not None and ks > ke:
        ks, ke = ke, ks
    start = None if ks is None else ks / fs
    stop = None if ke is None else ke / fs
    half = bool(case.get('half_sample')) and ks is not None and (ke is None or ke > ks)
    if half:
        # a limit halfway between two samples (fs * start = k + 0.5 exactly for the dyadic-friendly rates): which whole offset a
        # reset uses is then not specified - only that it is ONE offset for every column and row
        start = (ks + 0.5) / fs
    exact_s = ks is None or (ks / fs) * fs == ks
    exact_e = ke is None or (ke / fs) * fs == ke
    keep = df.copy(deep=True)
    kwargs = {}
    if start is not None or case['pass_none']:
        kwargs['start'] = start
    if stop is not None or case['pass_none']:
        kwargs['stop'] = stop
    out = guarded(limit_df, df, fs, reset_indices=case['reset'], **kwargs)
    ok, why = ref.frames_equal(df, keep)
    if not ok:
        raise Violation('limit_df:input-modified', why)
    if list(out.columns) != list(keep.columns):
        raise Violation('limit_df:columns-changed', '%s vs %s' % (list(out.columns), list(keep.columns)))
    scols = sample_columns(keep)
    # identify rows by position among the originals: closing extremum is unique per row; undo the (claimed uniform) shift
    last0, next0 = keep[nm['last']].values, keep[nm['next']].values
    if len(out):
        delta = None
        # the shift is determined from the closing extremum of the first row, then every column must agree
        cand = [int(next0[i] - out[nm['next']].values[0]) for i in range(len(keep))]
        pos = None
        # periodic signals give several consistent (row, offset) pairs: prefer the offset the call is expected to use
        expected = (ks or 0) if case['reset'] else 0
        if case['reset'] and half:
            expected = ks + (ks % 2)          # round-half-even of ks + 0.5
        for i in sorted(range(len(cand)), key=lambda i: (abs(cand[i] - expected), i)):
            dlt = cand[i]
            if all(int(keep[c].values[i] - out[c].values[0]) == dlt for c in scols):
                pos, delta = i, dlt
                break
        if pos is None:
            raise Violation('limit_df:sample-columns-not-uniformly-shifted', 'first output row %s matches no input row under one common offset' % (
                {c: int(out[c].values[0]) for c in scols}))
        where = {int(v): i for i, v in enumerate(next0)}
        idx = []
        for j in range(len(out)):
            key = int(out[nm['next']].values[j] + delta)
            if key not in where:
                raise Violation('limit_df:row-not-from-input', 'output row %d' % j)
            idx.append(where[key])
        if any(b <= a for a, b in zip(idx[:-1], idx[1:])):
            raise Violation('limit_df:order-changed-or-duplicated', str(idx[:10]))
        sub = keep.iloc[idx]
        for c in keep.columns:
            a, b = sub[c].values, out[c].values
            if c in scols:
                if not np.array_equal(a - delta, b):
                    raise Violation('limit_df:sample-shift-not-uniform', 'column %s: %s' % (c, ref.first_diff(a - delta, b)))
            else:
                same = ref.same_float(a, b) if a.dtype.kind == 'f' else np.array_equal(a, b)
                if not same:
                    raise Violation('limit_df:feature-value-changed', 'column %s: %s' % (c, ref.first_diff(a, b)))
        if not case['reset'] and delta != 0:
            raise Violation('limit_df:shifted-without-reset', 'offset %d' % delta)
        if case['reset'] and not half and delta != (ks or 0):
            raise Violation('limit_df:reset-offset', 'offset %d, window starts at sample %d' % (delta, ks or 0))
        if case['reset'] and half and delta not in (ks, ks + 1):
            raise Violation('limit_df:reset-offset', 'offset %d, window starts between samples %d and %d' % (delta, ks, ks + 1))
    else:
        idx = []
    got = set(idx)
    # the statement, evaluated in seconds exactly as a caller computes cycle times (sample / fs)
    t_last, t_next = last0 / fs, next0 / fs
    for i in range(len(keep)):
        inside = (start is None or t_last[i] >= start) and (stop is None or t_next[i] <= stop)
        outside = (start is not None and t_next[i] < start) or (stop is not None and t_last[i] > stop)
        if inside and i not in got:
            raise Violation('limit_df:cycle-inside-window-missing', 'cycle [%d,%d] window [%s,%s] samples (fs=%s, centre=%s)' % (
                last0[i], next0[i], ks, ke, fs, center))
        if outside and i in got:
            raise Violation('limit_df:cycle-outside-window-kept', 'cycle [%d,%d] window [%s,%s] samples' % (last0[i], next0[i], ks, ke))
    on_boundary = (ks is not None and ks in set(last0.tolist())) or (ke is not None and ke in set(next0.tolist()))
    rec.label('table:' + case['table']['kind'], 'center:' + center, 'start:%s' % ('none' if ks is None else case['start'][0]),
              'stop:%s' % ('none' if ke is None else case['stop'][0]), 'reset:%s' % case['reset'], 'index:' + case['index'], 'rows:' + case.get('row_order', 'time'),
              'late-samples' if case.get('late') else 'early-samples', 'on-cycle-boundary' if on_boundary else 'off-boundary', 'rows-out:%s' % ('0' if not len(out) else ('all' if len(out) == len(keep) else 'some')),
              'exact' if (exact_s and exact_e) else 'inexact-k/fs')
    rec.nontrivial(ks is None or ke is None or center == 'trough' or on_boundary)


@st.composite
def strat_limit_df(draw, tier):
    if draw(st.integers(0, 7)) == 0:
        c = draw(gen.st_analysis_case(max_n=1500))
        c['return_samples'] = True
        table = {'kind': 'real', 'case': c}
        fs = c['fs']
    else:
        table = {'kind': 'synthetic', 'recipe': draw(gen_tables.st_table_recipe()), 'method': draw(st.sampled_from(['cycles', 'amp']))}
        fs = draw(st.sampled_from(FS + [30000, 2048]))
    lim = st.one_of(st.none(), st.tuples(st.sampled_from(['side', 'side', 'inside', 'before', 'after']), st.integers(0, 10000)).map(list))
    return {'table': table, 'fs': fs, 'start': draw(lim), 'stop': draw(lim), 'reset': draw(st.booleans()),
            'pass_none': draw(st.booleans()),
            'index': draw(st.sampled_from(['range', 'range', 'offset', 'repeated', 'repeated', 'reversed'])),
            'row_order': draw(st.sampled_from(['time', 'time', 'time', 'by-feature', 'reversed'])),
            'late': draw(st.one_of(st.just(0), st.just(0), st.just(0), st.integers(1, 8))), 'half_sample': draw(st.integers(0, 5)) == 0}


# ------------------------------------------------------------------------------------------------ limit_signal

def check_limit_signal(case, rec):
    n, fs = case['n'], case['fs']
    if case['times'] == 'regular':
        times = np.arange(n) / fs
    elif case['times'] == 'irregular':
        times = np.cumsum(np.array(case['steps'][:n], dtype=float) / fs)
    elif case['times'] == 'trial-relative':
        # trials stored back to back with a trial-relative time axis: the statement is about the samples with start <= t < stop,
        # wherever they sit in the array
        m = max(2, n // (2 + case['steps'][0] % 3))
        times = (np.arange(n) % m) / fs
    elif case['times'] == 'clock-reset':
        k0 = 1 + case['steps'][1] % max(1, n - 1)
        times = np.concatenate([np.arange(k0), np.arange(n - k0)]) / fs
    else:                                   # samples stored out of time order
        order = np.argsort(np.array(case['steps'][:n]) * 1000 + np.arange(n), kind='stable')
        times = (np.arange(n) / fs)[order]
    sig = np.arange(n, dtype=float) * 0.5 - 3
    def lim(spec):
        if spec is None:
            return None
        kind, v = spec
        if kind == 'on':
            return float(times[v % n])
        if kind == 'between':
            i = v % max(1, n - 1)
            return float((times[i] + times[min(i + 1, n - 1)]) / 2)
        if kind == 'zero':
            return 0.0
        return float(times[-1] + 1 + v % 3)
    start, stop = lim(case['start']), lim(case['stop'])
    if start is not None and stop is not None and start > stop:
        start, stop = stop, start
    if start is not None and start < 0:
        start = 0.0
    if case.get('axis32'):
        # a single-precision time axis with limits given as double-precision numpy scalars (e.g. read from a float64 event table):
        # t >= start is then decided exactly, in double precision
        grid64 = times
        times = times.astype(np.float32)
        pick = lambda v, spec: None if v is None else np.float64(grid64[spec[1] % n] if spec[0] == 'on' else v)
        start, stop = pick(start, case['start']), pick(stop, case['stop'])
        if start is not None and stop is not None and start > stop:
            start, stop = stop, start
    t0, s0 = times.copy(), sig.copy()
    kwargs = {}
    if start is not None or case['pass_none']:
        kwargs['start'] = start
    if stop is not None or case['pass_none']:
        kwargs['stop'] = stop
    res = guarded(limit_signal, times, sig, **kwargs)
    if not (np.array_equal(times, t0) and np.array_equal(sig, s0)):
        raise Violation('limit_signal:input-modified', '')
    if not isinstance(res, tuple) or len(res) != 2:
        raise Violation('limit_signal:return-shape', str(type(res)))
    sig_out, times_out = res
    mask = np.ones(n, dtype=bool)
    if start is not None:
        mask &= t0.astype(np.float64) >= np.float64(start)
    if stop is not None:
        mask &= t0.astype(np.float64) < np.float64(stop)
    if not np.array_equal(times_out, t0[mask]):
        raise Violation('limit_signal:times', 'start=%r stop=%r: got %d samples [%s..], expected %d' % (
            start, stop, len(times_out), times_out[:1], int(mask.sum())))
    if not np.array_equal(sig_out, s0[mask]):
        raise Violation('limit_signal:samples-do-not-match-times', 'start=%r stop=%r' % (start, stop))
    on = (case['start'] is not None and case['start'][0] == 'on') or (case['stop'] is not None and case['stop'][0] == 'on')
    rec.label('times:' + case['times'], 'start:%s' % ('none' if start is None else case['start'][0]),
              'stop:%s' % ('none' if stop is None else case['stop'][0]), 'empty-result' if not mask.any() else 'non-empty')
    rec.nontrivial(start is None or stop is None or on)


@st.composite
def strat_limit_signal(draw, tier):
    n = draw(st.integers(2, 120))
    lim = st.one_of(st.none(), st.tuples(st.sampled_from(['on', 'on', 'between', 'zero', 'after']), st.integers(0, 1000)).map(list))
    return {'n': n, 'fs': draw(st.sampled_from(FS)), 'times': draw(st.sampled_from(['regular', 'regular', 'irregular', 'trial-relative', 'clock-reset', 'permuted'])),
            'steps': draw(st.lists(st.integers(1, 5), min_size=120, max_size=120)), 'start': draw(lim), 'stop': draw(lim),
            'pass_none': draw(st.booleans()), 'axis32': draw(st.integers(0, 4)) == 0}


# ------------------------------------------------------------------------------------------------ split / drop

def check_split(case, rec):
    df = gen_tables.build_table(case['recipe'], method=case['method'], with_samples=case['with_samples'])
    if case['extra']:
        df['Label'] = ['ch%d' % (i % 3) for i in range(len(df))]
        df.insert(0, 'subject', 7)
        df['downsample_factor'] = 4              # contains, but does not start with, the sample_ prefix
        df['n_sample_points'] = np.arange(len(df))
    keep = df.copy(deep=True)
    scols = sample_columns(keep)
    dropped = guarded(drop_samples_df, df)
    ok, why = ref.frames_equal(df, keep)
    if not ok:
        raise Violation('drop_samples_df:input-modified', why)
    want = [c for c in keep.columns if c not in scols]
    if list(dropped.columns) != want:
        raise Violation('drop_samples_df:columns', '%s vs %s' % (list(dropped.columns), want))
    ok, why = ref.frames_equal(dropped, keep[want])
    if not ok:
        raise Violation('drop_samples_df:values', why)
    if scols:
        feats, samples = guarded(split_samples_df, df.copy(deep=True))
        if sorted(list(feats.columns) + list(samples.columns)) != sorted(keep.columns):
            raise Violation('split_samples_df:column-union', '%s + %s' % (list(feats.columns), list(samples.columns)))
        if any(c.startswith('sample_') for c in feats.columns) or not all(c.startswith('sample_') for c in samples.columns):
            raise Violation('split_samples_df:partition', '')
        for part in (feats, samples):
            ok, why = ref.frames_equal(part, keep[list(part.columns)])
            if not ok:
                raise Violation('split_samples_df:values', why)
    rec.label('with-samples' if scols else 'no-sample-columns', 'extra-columns' if case['extra'] else 'plain', 'center:' + case['recipe']['center'])
    rec.nontrivial(bool(scols) and (case['extra'] or case['recipe']['center'] == 'trough'))


@st.composite
def strat_split(draw, tier):
    return {'recipe': draw(gen_tables.st_table_recipe(max_rows=12)), 'method': draw(st.sampled_from(['cycles', 'amp'])),
            'with_samples': draw(st.sampled_from([True, True, True, False])), 'extra': draw(st.booleans())}


# ------------------------------------------------------------------------------------------------ flatten

def check_flatten(case, rec):
    tables = []
    for r in case['tables']:
        t = gen_tables.build_table(r['recipe'], method=case['method'])
        if r['empty']:
            t = t.iloc[0:0]
        tables.append(t)
    n0 = case['n0']
    labels = case['labels']
    if case['label_type'] == 'int':
        lab = list(range(100, 100 + len(tables)))
    else:
        lab = ['L%s' % v for v in labels[:len(tables)]]
    if case.get('group_labels'):              # genuine group labels repeat: conditions, hemispheres, group ids
        lab = [lab[i % 2] for i in range(len(lab))]
    if case.get('hetero') and len(tables) >= 2:
        # tables that do not share one column set (one analysed without is_burst, one carrying an annotation): nothing is dropped,
        # missing entries are NaN
        k_ = case['hetero'] % len(tables)
        drop_ = [c_ for c_ in ('is_burst', 'monotonicity', 'burst_fraction') if c_ in tables[k_].columns][:1]
        tables[k_] = tables[k_].drop(columns=drop_)
        tables[(k_ + 1) % len(tables)] = tables[(k_ + 1) % len(tables)].assign(trial=7.0)
    originals = [t.copy(deep=True) for t in tables]
    if case['shape'] == '1d':
        dfs = [t.copy(deep=True) for t in tables]
        lab_arg = lab if case['label_container'] == 'list' else np.array(lab)
    else:
        n1 = len(tables) // n0
        tables, originals, lab = tables[:n0 * n1], originals[:n0 * n1], lab[:n0 * n1]
        dfs = [[tables[i * n1 + j].copy(deep=True) for j in range(n1)] for i in range(n0)]
        if case['label_container'] == 'list':
            lab_arg = [[lab[i * n1 + j] for j in range(n1)] for i in range(n0)]
        elif case['label_container'] == 'flat':
            lab_arg = list(lab)
        else:
            lab_arg = np.array(lab).reshape(n0, n1)
    out = guarded(flatten_dfs, dfs, lab_arg, **({'column_name': case['column_name']} if case['column_name'] else {}))
    col = case['column_name'] or 'Label'
    total = sum(len(t) for t in originals)
    if len(out) != total:
        raise Violation('flatten_dfs:row-count', '%d rows, tables hold %d' % (len(out), total))
    if col not in out.columns:
        raise Violation('flatten_dfs:no-label-column', col)
    expected_cols = []
    for t_ in originals:
        expected_cols += [c_ for c_ in t_.columns if c_ not in expected_cols]
    expected_cols += [col] if col not in expected_cols else []
    if not isinstance(out, pd.DataFrame) or sorted(map(str, out.columns)) != sorted(map(str, expected_cols)):
        raise Violation('flatten_dfs:columns', 'columns %s, the tables have %s plus the label column' % (list(map(str, out.columns))[:12], list(map(str, originals[0].columns))[:12]))
    pos = 0
    for t, l in zip(originals, lab):
        block = out.iloc[pos:pos + len(t)]
        pos += len(t)
        got_l = block[col].values
        if len(t) and not all(g == l for g in got_l.tolist()):
            raise Violation('flatten_dfs:label-of-origin', 'rows of the table labelled %r carry %s' % (l, repr(got_l.tolist()[:3])))
        for c in t.columns:
            a = t[c].values
            b = block[c].values
            if a.dtype.kind in 'fiub':
                if not ref.same_float(a.astype(float), np.asarray(b, dtype=float)):
                    raise Violation('flatten_dfs:values-or-order', 'column %s' % c)
    if case.get('relabel'):
        # the same table objects flattened again under other labels (e.g. first by epoch, then by condition)
        lab2 = ['R%s' % i for i in range(len(lab))]
        if case['shape'] == '1d':
            arg2 = lab2
        else:
            arg2 = [[lab2[i * n1 + j] for j in range(n1)] for i in range(n0)]
        out2 = guarded(flatten_dfs, dfs, arg2, **({'column_name': case['column_name']} if case['column_name'] else {}))
        pos = 0
        for t, l in zip(originals, lab2):
            got_l = out2.iloc[pos:pos + len(t)][col].values
            pos += len(t)
            if len(t) and not all(g == l for g in got_l.tolist()):
                raise Violation('flatten_dfs:label-of-origin-on-second-use', 'second flatten: rows of the table labelled %r carry %r' % (l, sorted(set(got_l.tolist()))[:3]))
    empties = sum(1 for t in originals if len(t) == 0)
    rec.label('shape:' + case['shape'], 'labels:' + case['label_container'], 'label-type:' + case['label_type'],
              'has-empty-table' if empties else 'no-empty-table', 'labels-repeat' if case.get('group_labels') else 'labels-unique')
    rec.nontrivial(len(originals) >= 2 and (empties > 0 or case['shape'] == '2d'))


@st.composite
def strat_flatten(draw, tier):
    shape = draw(st.sampled_from(['1d', '2d']))
    center = draw(st.sampled_from(['peak', 'trough']))
    if shape == '1d':
        k, n0 = draw(st.integers(1, 6)), 1
    else:
        n0 = draw(st.integers(1, 3)); k = n0 * draw(st.integers(1, 3))
    tables = []
    for _ in range(k):
        r = draw(gen_tables.st_table_recipe(max_rows=6))
        r['center'] = center
        tables.append({'recipe': r, 'empty': draw(st.integers(0, 3)) == 0})
    if all(t['empty'] for t in tables):
        tables[-1]['empty'] = False
    labels = draw(st.lists(st.integers(0, 99), min_size=k, max_size=k, unique=True))
    return {'shape': shape, 'n0': n0, 'tables': tables, 'labels': labels, 'method': draw(st.sampled_from(['cycles', 'amp'])),
            'label_type': draw(st.sampled_from(['str', 'str', 'int'])),
            'label_container': draw(st.sampled_from(['list', 'array'] + (['flat'] if shape == '2d' else []))),
            'column_name': draw(st.sampled_from([None, None, 'Channel'])), 'group_labels': draw(st.integers(0, 2)) == 0, 'relabel': draw(st.integers(0, 2)) == 0, 'hetero': draw(st.one_of(st.just(0), st.just(0), st.just(0), st.integers(1, 9)))}


PARTS = [
    Part('limit_df', check_limit_df, strategy=strat_limit_df, budget={'quick': 5000, 'thorough': 100000}, shards={'quick': 8, 'thorough': 16}),
    Part('limit_signal', check_limit_signal, strategy=strat_limit_signal, budget={'quick': 3000, 'thorough': 60000}, shards={'quick': 2, 'thorough': 8}),
    Part('split_drop', check_split, strategy=strat_split, budget={'quick': 2000, 'thorough': 30000}, shards={'quick': 3, 'thorough': 8}),
    Part('flatten_dfs', check_flatten, strategy=strat_flatten, budget={'quick': 2000, 'thorough': 40000}, shards={'quick': 3, 'thorough': 8}),
]
