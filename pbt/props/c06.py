"""C06 - Consistency burst labels follow the threshold-and-run rule."""
import math

import numpy as np
import pandas as pd
from hypothesis import strategies as st

import gen
import ref
import pipeline
from harness import Part, Violation, Discard, guarded
from bycycle.burst import detect_bursts_cycles

ID = 'C06'
TITLE = 'Consistency burst labels follow the threshold-and-run rule'
REGISTER = True
TECHNIQUE = ('Hypothesis property-based testing: differential against a reference labeller (strict >, NaN never qualifies, '
             'first/last never qualify, maximal runs >= min_n_cycles) on synthetic tables with values on / one ulp next to '
             'the thresholds and NaNs, and on real pipelines for the routing of thresholds and defaults; plus the metamorphic '
             'relation that raising a threshold or min_n_cycles only removes labels')
LEVEL_TEXT = ('Generated-input search: 6k synthetic tables x threshold vectors x min_n_cycles + 600 real pipelines (quick), '
              '300k + 30k (thorough). Exact label comparison. Sampling, not exhaustive.')
RULE = ('synthetic: tables of 1..40 rows whose four feature columns take values from {NaN, 0, t-1ulp, t, t+1ulp, t-1/8, t+1/8, 1} '
        'around the drawn thresholds t (also absent thresholds = documented defaults), min_n_cycles 0..8 (also absent = 3), fed to '
        'detect_bursts_cycles on a copy; a second threshold vector >= the first (component-wise, and k2 >= k1) checks '
        'monotonicity. pipeline: compute_features(burst_method=cycles) with generated threshold_kwargs (absent keys, None) and '
        'labels recomputed from the returned feature columns. Non-trivial: a value exactly equal to its threshold, or a NaN in an '
        'interior row, or both a kept and a removed run in the same table. Distinct = distinct case.')
ASSUMPTIONS = ['thresholds in [0,1], min_n_cycles >= 0 (the documented ranges; out-of-range values are C19)']
TRUSTED = ['numpy', 'pandas', 'itertools.groupby run filter']

COLS = ['amp_fraction', 'amp_consistency', 'period_consistency', 'monotonicity']


def decode_value(code, t):
    if code == 'nan':
        return float('nan')
    if code == 'zero':
        return 0.0
    if code == 'one':
        return 1.0
    if code == 'eq':
        return t
    if code == 'ulp+':
        return math.nextafter(t, 2.0)
    if code == 'ulp-':
        return math.nextafter(t, -1.0)
    if code == '+8':
        return t + 0.125
    if code == '-8':
        return t - 0.125
    return float(code)


def build(case):
    th = case['th']
    eff = dict(ref.CYC_DEFAULTS)
    eff.update(th)
    data = {}
    for c in COLS:
        data[c] = [decode_value(v, eff[c + '_threshold']) for v in case['cols'][c]]
    df = pd.DataFrame(data)
    df['period'] = np.arange(len(df)) + 10
    n = len(df)
    extra = case.get('extra')
    if extra:
        # columns that carry no cycle feature (the label column flatten_dfs adds, an epoch number, a channel name): the rule is
        # about the four feature columns and the row order only
        block = max(1, n // 3)
        if extra in ('Label-blocks', 'both'):
            df['Label'] = [i // block for i in range(n)]
        if extra == 'Label-const':
            df['Label'] = 'task'
        if extra in ('Epoch', 'both'):
            df['Epoch'] = ['e%d' % (i % 2) for i in range(n)]
    kind = case.get('index', 'range')
    if kind == 'offset':
        df.index = pd.RangeIndex(5, 5 + n)
    elif kind == 'repeated':               # as after flatten_dfs / concat of epoch tables without ignore_index
        h = (n + 1) // 2
        df.index = pd.Index(list(range(h)) + list(range(n - h)))
    elif kind == 'reversed':
        df.index = pd.Index(list(range(n))[::-1])
    return df


def check_synth(case, rec):
    df = build(case)
    n = len(df)
    th = gen.copy_json(case['th'])
    out = guarded(detect_bursts_cycles, df.copy(), **th)
    if 'is_burst' not in out.columns or len(out) != n:
        raise Violation('no-is_burst-column', '')
    got = out['is_burst'].values
    if got.dtype != bool:
        raise Violation('is_burst-dtype', str(got.dtype))
    exp = ref.ref_labels_cycles(df, th)
    if not np.array_equal(got, exp):
        raise Violation('labels-differ-from-rule', 'thresholds %s: got %s expected %s' % (th, got.astype(int).tolist(), exp.astype(int).tolist()))
    for c in COLS + ['period']:
        if not ref.same_float(out[c].values, df[c].values):
            raise Violation('feature-column-changed', c)
    if n and (got[0] or got[-1]):
        raise Violation('first-or-last-labelled', '')
    # threshold tuning workflow: the labelled table is edited (rows swapped) and labelled again with the same settings
    if n >= 4:
        edited = out.copy()
        vals = edited[COLS].values.copy()
        vals[[1, n - 2]] = vals[[n - 2, 1]]
        vals[1:n - 1] = vals[1:n - 1][::-1]
        edited[COLS] = vals
        base = edited[COLS + ['period']].copy()
        relab = guarded(detect_bursts_cycles, edited, **th)
        exp_edit = ref.ref_labels_cycles(base, th)
        if not np.array_equal(relab['is_burst'].values, exp_edit):
            raise Violation('relabel-after-edit-differs-from-rule', 'second call with the same thresholds on the edited table')
    # metamorphic: raising thresholds / min_n_cycles can only remove labels
    th2 = gen.copy_json(case['th2'])
    got2 = guarded(detect_bursts_cycles, df.copy(), **th2)['is_burst'].values
    if np.any(got2 & ~got):
        raise Violation('raising-threshold-added-label', 'th %s -> %s: %s -> %s' % (th, th2, got.astype(int).tolist(), got2.astype(int).tolist()))
    eff = dict(ref.CYC_DEFAULTS); eff.update(th)
    equal = any(df[c].values[i] == eff[c + '_threshold'] for c in COLS for i in range(1, max(n - 1, 1)) if i < n)
    nan_interior = any(np.isnan(df[c].values[1:-1]).any() for c in COLS) if n > 2 else False
    q = np.ones(n, dtype=bool)
    for c in COLS:
        with np.errstate(invalid='ignore'):
            q &= df[c].values > eff[c + '_threshold']
    if n:
        q[0] = q[-1] = False
    kept_and_removed = bool(got.any() and (q & ~got).any())
    rec.label('index:' + case.get('index', 'range'), 'extra-columns:%s' % case.get('extra'), 'whole-interior-qualifies' if (n > 2 and q[1:-1].all()) else 'some-fail', 'rows=k+2' if n == eff['min_n_cycles'] + 2 else 'rows!=k+2', 'threshold-equality' if equal else 'no-equality', 'nan-interior' if nan_interior else 'no-nan-interior',
              'kept+removed-runs' if kept_and_removed else 'no-mixed-runs', 'k:%s' % th.get('min_n_cycles', 'default'),
              'bursts' if got.any() else 'no-bursts', 'monotone-strictly-fewer' if (got & ~got2).any() else 'monotone-same')
    rec.nontrivial(equal or nan_interior or kept_and_removed)


def check_pipeline(case, rec):
    x = gen.render_signal(case['sig'])
    pipeline.expected_cycles(case, x)
    df = pipeline.analyse(case, x)
    rec.label(*gen.case_labels(case))
    exp = ref.ref_labels_cycles(df, case.get('th'))
    got = df['is_burst'].values
    if not np.array_equal(got, exp):
        raise Violation('pipeline-labels-differ-from-rule', 'threshold_kwargs=%s: %s' % (case.get('th'), ref.first_diff(got, exp)))
    th = dict(ref.CYC_DEFAULTS); th.update(case.get('th') or {})
    q = np.ones(len(df), dtype=bool)
    for c in COLS:
        with np.errstate(invalid='ignore'):
            q &= df[c].values > th[c + '_threshold']
    q[0] = q[-1] = False
    mixed = bool(got.any() and (q & ~got).any())
    rec.label('bursts:%s' % ('none' if not got.any() else 'some'), 'kept+removed-runs' if mixed else 'no-mixed-runs')
    rec.nontrivial(mixed or (got.any() and not got.all()))


VALUE_CODES = ['nan', 'zero', 'one', 'eq', 'eq', 'ulp+', 'ulp+', 'ulp-', '+8', '+8', '+8', '-8']


@st.composite
def strat_synth(draw, tier):
    n = draw(st.one_of(st.integers(1, 40), st.integers(1, 40), st.integers(0, 3)))      # empty and one- to three-row tables included
    whole = draw(st.integers(0, 5)) == 0     # every cycle qualifies and the table is about min_n_cycles + 2 rows long
    th = {}
    for c in COLS:
        if draw(st.integers(0, 5)) > 0:
            th[c + '_threshold'] = draw(st.one_of(st.sampled_from([0.0, 0.125, 0.25, 0.5, 0.75, 0.875, 1.0]), gen._f(0, 1)))
    if draw(st.integers(0, 5)) > 0:
        th['min_n_cycles'] = draw(st.integers(0, 8))
    # row-wise construction: most rows qualify on all four criteria, the others fail on one or two of them,
    # with the failing / passing values sitting on or next to the threshold
    good = st.sampled_from(['ulp+', 'ulp+', '+8', '+8', 'one'])
    bad = st.sampled_from(['nan', 'zero', 'eq', 'eq', 'ulp-', '-8'])
    cols = {c: [] for c in COLS}
    if whole and n:
        n = max(1, th.get('min_n_cycles', 3) + draw(st.sampled_from([1, 2, 2, 2, 3])))
    for _ in range(n):
        nfail = 0 if whole else draw(st.sampled_from([0, 0, 0, 0, 1, 1, 2]))
        failing = draw(st.lists(st.sampled_from(COLS), min_size=nfail, max_size=nfail, unique=True)) if nfail else []
        for c in COLS:
            cols[c].append(draw(bad if c in failing else good))
    th2 = dict(th)
    eff = dict(ref.CYC_DEFAULTS); eff.update(th)
    which = draw(st.sampled_from(COLS + ['min_n_cycles']))
    if which == 'min_n_cycles':
        th2['min_n_cycles'] = eff['min_n_cycles'] + draw(st.integers(0, 3))
    else:
        t = eff[which + '_threshold']
        th2[which + '_threshold'] = min(1.0, draw(st.sampled_from([t, math.nextafter(t, 2.0), t + 0.125, 1.0])))
    return {'cols': cols, 'th': th, 'th2': th2, 'index': draw(st.sampled_from(['range', 'range', 'offset', 'repeated', 'repeated', 'reversed'])),
            'extra': draw(st.sampled_from([None, None, None, 'Label-blocks', 'Label-blocks', 'Label-const', 'Epoch', 'both']))}


@st.composite
def strat_pipeline(draw, tier):
    case = draw(gen.st_analysis_case(methods=('cycles',), bursty=draw(st.booleans())))
    return case


PARTS = [
    Part('synthetic', check_synth, strategy=strat_synth, budget={'quick': 6000, 'thorough': 300000},
         shards={'quick': 8, 'thorough': 16}),
    Part('pipeline', check_pipeline, strategy=strat_pipeline, budget={'quick': 600, 'thorough': 30000},
         shards={'quick': 8, 'thorough': 16}),
]
