"""C08 - Minimum-run filter removes exactly the short bursts."""
import itertools

import numpy as np
from hypothesis import strategies as st

from harness import Part, Violation, guarded
from bycycle.burst.utils import check_min_burst_cycles

ID = 'C08'
TITLE = 'Minimum-run filter removes exactly the short bursts'
RULE = ('enum: every boolean array of length 1..L (L=12 quick, 16 thorough) x every min_n_cycles in 0..len+1; '
        'hyp: boolean arrays built from drawn run lengths up to length ~400 with k<=50 (ints, floats, numpy ints), one in ten with '
        'tens of thousands of cycles and k in 300..2500; arrays returned by earlier calls are re-checked after later calls; '
        'thorough only: atheris / libFuzzer coverage-guided fuzzing of the same check body (bytes -> bits, k; empty corpus). '
        'Oracle: groupby run filter (differential) + direct predicates (same length, no False->True, every maximal '
        'run kept iff len>=k, idempotent). Non-trivial: the array holds a run >= k and a run < k, or a run '
        'touching an edge that is shorter than k. Distinct = distinct (array, k).')
REGISTER = True
TECHNIQUE = 'exhaustive enumeration of all boolean arrays up to a length bound x all k, plus every single-run array (run at the start / middle / end, minimum = length, +1, -1, one ulp above / below) up to a larger length bound, plus Hypothesis-generated long arrays, against a groupby reference model and direct run predicates; values passed in four memory layouts; arrays returned by earlier calls re-checked after later calls; atheris/libFuzzer part in the thorough tier'
LEVEL_TEXT = 'Exhaustive for every array of length <= 12 (quick) / <= 16 (thorough) and every min_n_cycles 0..len+1; random structured search beyond (length <= 400, k <= 50). Complete below the bound, sampling above it.'
ASSUMPTIONS = ['the input is handed over as a fresh copy (the function works in place; in-place-ness is C15 territory)',
               '1-D numpy bool arrays only (the documented input type), in C-contiguous, reversed-view, strided-view and table-column layouts']
TRUSTED = ['numpy', 'itertools.groupby reference run filter']


def ref_runs(mask, k):
    out = []
    for val, grp in itertools.groupby(list(mask)):
        grp = list(grp)
        out.extend([bool(val) and len(grp) >= k] * len(grp))
    return np.array(out, dtype=bool)


def runs_of(mask):
    res, i = [], 0
    for val, grp in itertools.groupby(list(mask)):
        n = len(list(grp))
        if val:
            res.append((i, i + n))
        i += n
    return res


def as_layout(arr, layout):
    """the same boolean values as a fresh array in another memory layout (all are 1-D numpy bool arrays)"""
    n = len(arr)
    if layout == 'rev':                      # reversed view
        return arr[::-1].copy()[::-1]
    if layout == 'stride':                   # every second element of a longer buffer
        buf = np.zeros(2 * n, dtype=bool)
        buf[::2] = arr
        return buf[::2]
    if layout == 'col':                      # one column of a C-ordered 2-D table
        tab = np.zeros((n, 3), dtype=bool)
        tab[:, 1] = arr
        return tab[:, 1]
    return arr.copy()


HELD = []        # (result array of an earlier call, what it must still be): results handed out stay valid


def expand_bits(case):
    if 'runs' in case:                       # compact form for very long arrays
        bits, v = [], case['first']
        for r in case['runs']:
            bits.extend([int(v)] * r)
            v = not v
        return bits
    return case['bits']


def check(case, rec):
    bits = expand_bits(case)
    k = case['k']
    kt = case.get('ktype')
    if kt == 'float':
        k = float(k)
    elif kt == 'npint':
        k = np.int64(k)
    elif kt == 'frac':                     # a non-integral minimum (check_param_range admits any number in [0, inf])
        k = k + case.get('frac', 0.5)
    elif kt == 'ulp-above':                # the next float above a whole number: runs of exactly that many cycles are too short
        k = float(np.nextafter(float(k), np.inf))
    elif kt == 'ulp-below':                # the next float below: they are long enough
        k = float(np.nextafter(float(k), 0.0)) if k > 0 else 0.0
    elif kt == 'rel-above':                # a hair above (relative 3e-6, within a careless isclose tolerance)
        k = float(k) * (1 + 3e-6) if k > 0 else 1e-9
    elif kt == 'inf-py':
        k = float('inf')
    elif kt == 'inf-np':
        k = np.float64('inf')
    arr = np.array(bits, dtype=bool)
    orig = arr.copy()
    if kt == 'default-after-recompute':
        # the documented default (3 cycles), asked for after the neighbouring public function was used with another minimum
        import pandas as pd
        from bycycle.burst.utils import recompute_edges
        tbl = pd.DataFrame({'amp_fraction': [0.5] * 8, 'amp_consistency': [np.nan] + [0.9] * 6 + [np.nan], 'period_consistency': [np.nan] + [0.9] * 6 + [np.nan],
                            'monotonicity': [0.9] * 8, 'period': [10] * 8, 'volt_rise': [1.0] * 8, 'volt_decay': [1.0] * 8,
                            'sample_peak': np.arange(8) * 10 + 5, 'is_burst': [False, True, True, True, False, False, False, False]})
        guarded(recompute_edges, tbl, {'amp_fraction_threshold': 0.1, 'amp_consistency_threshold': 0.5, 'period_consistency_threshold': 0.5,
                                       'monotonicity_threshold': 0.5, 'min_n_cycles': [1, 2, 5, 7][case['k'] % 4]})
        k = 3
        out = guarded(check_min_burst_cycles, as_layout(arr, case.get('layout', 'c')))
    else:
        out = guarded(check_min_burst_cycles, as_layout(arr, case.get('layout', 'c')), min_n_cycles=k)
    if not isinstance(out, np.ndarray) or out.shape != orig.shape:
        raise Violation('shape', 'returned %r for input of length %d' % (getattr(out, 'shape', type(out)), len(orig)))
    if out.dtype != bool:
        raise Violation('dtype', str(out.dtype))
    if (out & ~orig).any():
        raise Violation('false-became-true', 'bits=%s k=%s' % (bits[:60], k))
    runs = runs_of(orig)
    for a, b in runs:
        seg = out[a:b]
        if b - a >= k and not seg.all():
            raise Violation('long-run-cleared', 'run [%d,%d) k=%s len=%d bits[:60]=%s' % (a, b, k, len(bits), bits[:60]))
        if b - a < k and seg.any():
            raise Violation('short-run-kept', 'run [%d,%d) k=%s len=%d bits[:60]=%s' % (a, b, k, len(bits), bits[:60]))
    exp = ref_runs(orig, k)
    if not np.array_equal(out, exp):
        raise Violation('differs-from-reference', 'len=%d k=%s bits[:60]=%s' % (len(bits), k, bits[:60]))
    again = guarded(check_min_burst_cycles, as_layout(np.array(out, dtype=bool), case.get('layout', 'c')), min_n_cycles=k) if kt != 'default-after-recompute' \
        else guarded(check_min_burst_cycles, as_layout(np.array(out, dtype=bool), case.get('layout', 'c')))
    if not np.array_equal(again, out):
        raise Violation('not-idempotent', 'len=%d k=%s' % (len(bits), k))
    for old_out, old_exp in HELD:
        if not np.array_equal(old_out, old_exp):
            raise Violation('earlier-result-changed-by-later-call', 'an array returned by an earlier call changed when the function was called again (k=%s, len=%d)' % (k, len(orig)))
    del HELD[:-1]
    HELD.append((out, exp.copy()))
    lens = [b - a for a, b in runs]
    edge_short = any((a == 0 or b == len(orig)) and b - a < k for a, b in runs)
    edge_long = any((a == 0 or b == len(orig)) and b - a >= k for a, b in runs)
    mixed = any(n >= k for n in lens) and any(n < k for n in lens)
    rec.label('huge' if len(bits) > 5000 else 'small', 'layout:' + case.get('layout', 'c'), 'k=0' if k == 0 else 'k>0', 'edge-run' if (edge_short or edge_long) else 'no-edge-run',
              'mixed' if mixed else 'unmixed', 'empty' if not lens else 'has-runs')
    rec.nontrivial(mixed or edge_short)


def enum(tier, shard, nshards):
    L = 12 if tier == 'quick' else 16
    idx = 0
    for n in range(1, L + 1):
        for bits in itertools.product((0, 1), repeat=n):
            idx += 1
            if idx % nshards != shard:
                continue
            if n <= 8:
                for k in range(0, n + 1):
                    yield {'bits': list(bits), 'k': k, 'ktype': 'frac', 'frac': [0.25, 0.5][k % 2], 'layout': 'c'}
                yield {'bits': list(bits), 'k': 0, 'ktype': ['inf-py', 'inf-np'][idx % 2], 'layout': 'c'}
            for k in range(0, n + 2):
                yield {'bits': list(bits), 'k': k, 'layout': ['c', 'rev', 'stride', 'col'][(idx + k) % 4] if n <= 10 else 'c'}


def enum_single(tier, shard, nshards):
    """arrays holding exactly one run, at the start / in the middle / at the end, with the minimum equal to, one above and one below
    its length - for every array length up to a bound (counts reconstructed from means or sums go wrong at particular lengths),
    plus a few runs of about 2e5 cycles with the minimum one above / one below"""
    N = 160 if tier == 'quick' else 420
    idx = 0
    for n in range(1, N + 1):
        for r in range(1, n + 1):
            idx += 1
            if idx % nshards != shard:
                continue
            for pos in (0, (n - r) // 2, n - r):
                if pos == (n - r) // 2 and pos in (0, n - r) and n != r:
                    continue
                runs = ([pos] if pos else []) + [r] + ([n - r - pos] if n - r - pos else [])
                for k in (r, r + 1, r - 1):
                    yield {'runs': runs, 'first': pos == 0, 'k': k, 'ktype': ['int', 'float', 'ulp-above', 'ulp-below', 'rel-above'][(idx + k) % 5], 'layout': 'c'}
    # one probe run of every length among many isolated short runs (implementations that treat "few long" and "many short" runs
    # on different paths have a seam where the two meet)
    R = 300 if tier == 'quick' else 700
    for n_short in (33, 40, 63, 64, 100):
        for pad in (0, 10, 74):
            for r in range(2, R + 1):
                idx += 1
                if idx % nshards != shard:
                    continue
                runs = [1, 1] * n_short + [r] + ([pad] if pad else [])          # True/False alternate: n_short isolated cycles, then the probe
                yield {'runs': runs, 'first': True, 'k': r + 50, 'ktype': 'int', 'layout': 'c'}
                if r % 3 == 0:
                    yield {'runs': runs, 'first': True, 'k': r, 'ktype': 'int', 'layout': 'c'}
    for j, r in enumerate([99999, 100001, 199999, 262144]):
        if j % nshards != shard:
            continue
        for k, kt in ((r + 1, 'int'), (r, 'int'), (r, 'ulp-above'), (r + 2, 'float')):
            yield {'runs': [7, r, 11, 3, 5], 'first': False, 'k': k, 'ktype': kt, 'layout': 'c'}


def strategy(tier):
    @st.composite
    def s(draw):
        if draw(st.integers(0, 9)) == 0:
            # very long recordings with long minimum runs (tens of thousands of cycles)
            runs = draw(st.lists(st.one_of(st.integers(1, 40), st.integers(300, 3000)), min_size=5, max_size=40))
            k = draw(st.one_of(st.integers(300, 2500), st.sampled_from(sorted(set(runs)))))
            return {'runs': runs, 'first': draw(st.booleans()), 'k': k, 'ktype': 'int', 'layout': 'c'}
        runs = draw(st.lists(st.integers(1, 60), min_size=1, max_size=25))
        first = draw(st.booleans())
        bits, v = [], first
        for r in runs:
            bits.extend([int(v)] * r)
            v = not v
        bits = bits[:400]
        k = draw(st.one_of(st.integers(0, 50), st.sampled_from(sorted(set(runs))), st.sampled_from(sorted(set(r + 1 for r in runs)))))
        ktype = draw(st.sampled_from(['int', 'int', 'float', 'npint', 'frac', 'frac', 'inf-py', 'inf-np', 'ulp-above', 'ulp-below', 'rel-above', 'default-after-recompute']))
        return {'bits': bits, 'k': k, 'ktype': ktype, 'frac': draw(st.sampled_from([0.25, 0.5, 0.99])), 'layout': draw(st.sampled_from(['c', 'c', 'rev', 'stride', 'col']))}
    return s()


def decode(fdp):
    n = fdp.ConsumeIntInRange(1, 96)
    bits = [int(fdp.ConsumeBool()) for _ in range(n)]
    return {'bits': bits, 'k': fdp.ConsumeIntInRange(0, 100), 'ktype': ['int', 'float', 'npint', 'frac', 'inf-py'][fdp.ConsumeIntInRange(0, 4)],
            'layout': ['c', 'rev', 'stride', 'col'][fdp.ConsumeIntInRange(0, 3)]}


PARTS = [
    Part('exhaustive', check, enum=enum, shards={'quick': 8, 'thorough': 16}, exhaustive=True,
         time_cap={'quick': 120, 'thorough': 1800}),
    Part('single-run', check, enum=enum_single, shards={'quick': 8, 'thorough': 16}, exhaustive=True,
         time_cap={'quick': 150, 'thorough': 1800}),
    Part('long-arrays', check, strategy=strategy, budget={'quick': 2000, 'thorough': 60000},
         shards={'quick': 4, 'thorough': 16}),
    Part('fuzz-atheris', check, decode=decode, budget={'quick': 0, 'thorough': 3000000}, shards={'quick': 1, 'thorough': 12},
         tiers=('thorough',), time_cap={'quick': 60, 'thorough': 1500}),
]
