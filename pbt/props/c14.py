"""C14 - Bycycle objects reproduce the functional API and hold no stale state."""
import copy
import warnings

import numpy as np
import pandas as pd
from hypothesis import strategies as st

import gen
import ref
import group_common as gc
from harness import Part, Violation, Discard, guarded, with_timeout
from bycycle import Bycycle, BycycleGroup
from bycycle.features import compute_features
from bycycle.burst import recompute_edges

ID = 'C14'
TITLE = 'Bycycle objects reproduce the functional API and hold no stale state'
REGISTER = True
TECHNIQUE = ('model-based stateful property testing: Hypothesis draws a history of operations (construct / fit / recompute_edges / load / '
             'threshold and option edits / method and centring switches / attribute reads) on one Bycycle object; an interpreter applies '
             'it to the real object and to a model holding only what the user set, and after every step compares the object with the '
             'functional API called on fresh copies of the model settings and with a freshly constructed object (ops include deepcopy / pickle clones, in-place edits of every settings attribute, refits of the previous recording, tables with extra columns); an enumerated grid of the shortest accepted recordings through object and function; a second machine for BycycleGroup histories')
LEVEL_TEXT = ('Generated-history search: 640 histories of up to 14 operations (quick), 12k (thorough), over a pool of 4 signals, both '
              'burst methods and centrings, shorthand threshold names; plus BycycleGroup histories (2-D / 3-D fits, repeated fits, '
              'recompute_edges). The whole history shrinks as one value and is the replay file. Sampling, not exhaustive.')
RULE = ('Hypothesis: list of operations drawn from {construct(settings incl. shorthand names, None thresholds), fit(signal k), '
        'recompute_edges(r in {None, 0, .05, .1, .3}), load(table of another fit), set_threshold(key, v), set_burst_option(key, v), '
        'switch_method(m, thresholds), switch_center, read_attribute(column | bogus), clone(deepcopy | pickle round trip)}; model = deep-copied record of the current settings. '
        'Invariants: after fit, df_features is bit-equal to compute_features(sig, fs, band, **fresh copies of the model) and to the table '
        'of a freshly constructed object (or all three raise the same exception type); after recompute_edges(r), df_features equals the '
        'functional recompute_edges(previous table, thresholds with every *_threshold lowered by r) or both raise ValueError; attribute '
        'access returns the column values, unknown names raise AttributeError; BycycleGroup.models[i(,j)] hold df_features[i(,j)] and '
        'sigs[i(,j)]. Non-trivial: history with >= 2 fits on one object with an edit, a recompute_edges, a load or a method switch in '
        'between, including an amp fit (the path that handles the option dictionaries). Distinct = distinct history.')
ASSUMPTIONS = ['recompute_edges is only issued for burst_method=cycles tables (documented precondition)',
               'settings dictionaries handed to the constructor are fresh copies owned by the object']
TRUSTED = ['numpy', 'pandas']

CYC_SHORT = ['amp_fraction', 'amp_consistency', 'period_consistency', 'monotonicity']


def expand(th):
    if not isinstance(th, dict):
        return th
    return {(k if k.endswith('_threshold') or k == 'min_n_cycles' else k + '_threshold'): v for k, v in th.items()}


def default_thresholds(method):
    if method == 'cycles':
        return {'amp_fraction_threshold': 0., 'amp_consistency_threshold': .5, 'period_consistency_threshold': .5,
                'monotonicity_threshold': .8, 'min_n_cycles': 3}
    return {'burst_fraction_threshold': 1, 'min_n_cycles': 3}


class Model:
    def __init__(self, s):
        self.center = s['center']
        self.method = s['method']
        self.bk = gen.copy_json(s.get('bk')) or {}
        th = s.get('th')
        self.th = expand(gen.copy_json(th)) if th is not None else default_thresholds(self.method)
        fek = s.get('fek')
        self.fek = gen.copy_json(fek) if fek is not None else {'filter_kwargs': {'n_cycles': 3}}
        self.rs = s.get('return_samples', True)

    def kwargs(self):
        bk = gen.copy_json(self.bk)
        if 'amp_threshes' in bk:
            bk['amp_threshes'] = tuple(bk['amp_threshes'])
        return dict(center_extrema=self.center, burst_method=self.method, burst_kwargs=bk, threshold_kwargs=gen.copy_json(self.th),
                    find_extrema_kwargs=gen.copy_json(self.fek), return_samples=self.rs)


def make_object(s):
    bk = gen.copy_json(s.get('bk'))
    if bk and 'amp_threshes' in bk:
        bk['amp_threshes'] = tuple(bk['amp_threshes'])
    with warnings.catch_warnings():
        warnings.simplefilter('ignore')
        return Bycycle(center_extrema=s['center'], burst_method=s['method'], burst_kwargs=bk, thresholds=gen.copy_json(s.get('th')),
                       find_extrema_kwargs=gen.copy_json(s.get('fek')), return_samples=s.get('return_samples', True))


def outcome(fn):
    try:
        with warnings.catch_warnings():
            warnings.simplefilter('ignore')
            return 'ok', fn()
    except Exception as exc:  # noqa
        return type(exc).__name__, str(exc)[:150]


def fresh_from_model(m):
    kw = m.kwargs()
    with warnings.catch_warnings():
        warnings.simplefilter('ignore')
        return Bycycle(center_extrema=kw['center_extrema'], burst_method=kw['burst_method'], burst_kwargs=kw['burst_kwargs'],
                       thresholds=kw['threshold_kwargs'], find_extrema_kwargs=kw['find_extrema_kwargs'], return_samples=kw['return_samples'])


def check(case, rec):
    fs, fr = case['fs'], tuple(case['f_range'])
    sigs = [gen.render_signal(s).astype(float) for s in case['signals']]
    buffer = np.zeros(len(sigs[0]))
    obj, model = None, None
    last_sig = None
    fits = 0
    fits_after_event = 0
    event_since_fit = False
    amp_fit = False
    history = []
    np_th = False
    read_before = set()
    drifted = False
    ops = []
    for op in case['ops']:
        ops.append(op)
        if op[0] == 'recompute' and len(op) > 2 and op[2]:
            ops.append([op[0], op[1]])          # the edges recomputed twice in a row (the second call works on the object's own earlier result)
        if op[0] in ('switch_center', 'np_thresholds') and len(ops) % 2 == 0:
            ops.append(['recompute', [None, 0.0625][len(ops) % 4 // 2]])      # ... and the edges recomputed right after the edit, before any refit
    for step, op in enumerate(ops):
        kind = op[0]
        history.append(kind)
        tag = 'step %d %s' % (step, op if kind != 'construct' else 'construct')
        if kind == 'construct' or obj is None:
            s = op[1] if kind == 'construct' else case['initial']
            np_th = False
            obj = make_object(s)
            model = Model(s)
            fits = 0
            event_since_fit = False
            if kind != 'construct':
                pass
            else:
                continue
        if kind in ('fit', 'fit_buffer'):
            # index -1: the recording of the previous fit once more (the threshold-tuning loop: fit, look, recompute, edit, fit)
            x = last_sig if (op[1] == -1 and last_sig is not None) else sigs[op[1] % len(sigs)]
            if kind == 'fit_buffer':
                # the caller keeps ONE array object and refills it in place before every fit (acquisition buffer)
                buffer[:] = x
                arg = buffer
            else:
                arg = x.copy()
            res_obj = outcome(lambda: obj.fit(arg, fs, fr))
            res_fun = outcome(lambda: compute_features(x.copy(), fs, fr, **model.kwargs()))
            fresh = fresh_from_model(model)
            res_new = outcome(lambda: fresh.fit(x.copy(), fs, fr))
            kinds = (res_obj[0], res_fun[0], res_new[0])
            if len(set(kinds)) != 1:
                raise Violation('fit-outcome-differs', '%s: object %s / functional %s / fresh object %s (%s) after %s' % (
                    tag, res_obj[0], res_fun[0], res_new[0], [r[1] for r in (res_obj, res_fun, res_new) if r[0] != 'ok'][:1], history))
            if kinds[0] != 'ok':
                rec.label('fit-raises:' + kinds[0])
                continue
            ok, why = ref.frames_equal(obj.df_features, res_fun[1])
            if not ok:
                raise Violation('fit-differs-from-functional', '%s: %s | settings on the object: thresholds=%s burst_kwargs=%s | model: %s %s | history %s' % (
                    tag, why, obj.thresholds, obj.burst_kwargs, model.th, model.bk, history))
            ok, why = ref.frames_equal(obj.df_features, fresh.df_features)
            if not ok:
                raise Violation('fit-differs-from-fresh-object', '%s: %s | history %s' % (tag, why, history))
            if not np.array_equal(obj.sig, x) or obj.fs != fs or tuple(obj.f_range) != fr:
                raise Violation('fit-attributes', tag)
            last_sig = x
            fits += 1
            if event_since_fit and fits >= 2:
                fits_after_event += 1
            event_since_fit = False
            amp_fit = amp_fit or model.method == 'amp'
        elif kind == 'recompute':
            if obj.df_features is None or model.method != 'cycles' or 'amp_consistency' not in obj.df_features.columns:
                continue
            r = op[1]
            if len(history) % 2 == 0:
                # a user who looked at the burst columns through attribute access before recomputing the edges
                for col in ('is_burst', 'amp_consistency', 'period_consistency'):
                    getattr(obj, col)
                    read_before.add(col)
            held = obj.df_features                       # the caller may still hold the table it was given earlier
            before = obj.df_features.copy(deep=True)
            src = obj.thresholds if np_th else model.th  # numpy-scalar settings: lower the very objects the user stored
            red = {k: (v - (r or 0) if k.endswith('threshold') else v) for k, v in src.items()}
            got_red = outcome(lambda: obj.reduce_thresholds(r))
            if got_red[0] != 'ok' or set(got_red[1]) != set(red) or any(got_red[1][k] != red[k] for k in red):
                raise Violation('reduce_thresholds', '%s: reduce_thresholds(%r) gave %s, every *_threshold lowered by r is %s' % (tag, r, got_red[1], red))
            res_fun = outcome(lambda: recompute_edges(before.copy(deep=True), red))
            res_obj = outcome(lambda: obj.recompute_edges(r))
            if res_fun[0] != res_obj[0]:
                raise Violation('recompute-outcome-differs', '%s: object %s (%s) / functional %s (%s)' % (tag, res_obj[0], res_obj[1], res_fun[0], res_fun[1]))
            if res_fun[0] == 'ok':
                ok, why = ref.frames_equal(obj.df_features, res_fun[1])
                if not ok:
                    raise Violation('recompute-differs-from-functional', '%s (r=%r): %s | object thresholds %s, model %s' % (tag, r, why, obj.thresholds, model.th))
            elif res_fun[0] != 'ValueError':
                rec.label('recompute-raises:' + res_fun[0])
            ok, why = ref.frames_equal(held, before)
            if not ok:
                raise Violation('recompute-modified-the-previous-table', '%s: the table held before the call changed: %s (history %s)' % (tag, why, history))
            if res_obj[0] == 'ok' and obj.df_features is held:
                raise Violation('recompute-returned-the-previous-table-object', '%s (history %s)' % (tag, history))
            event_since_fit = True
        elif kind == 'load':
            x = sigs[op[1] % len(sigs)]
            res = outcome(lambda: compute_features(x.copy(), fs, fr, **model.kwargs()))
            if res[0] != 'ok':
                continue
            if op[1] % 3 == 1:
                # a table that went through the user's hands: extra columns, some named like DataFrame attributes
                res[1]['index'] = np.arange(len(res[1]))[::-1].copy()
                res[1]['size'] = 7.5
                res[1]['Label'] = 3
            obj.load(res[1], x, fs, fr)
            if obj.df_features is not res[1]:
                raise Violation('load', tag)
            for col_ in ('index', 'size', 'Label'):
                if col_ in res[1].columns:
                    got_ = outcome(lambda: getattr(obj, col_))
                    if got_[0] != 'ok' or not isinstance(got_[1], np.ndarray) or not np.array_equal(got_[1], res[1][col_].values):
                        raise Violation('attribute-access', '%s: attribute %r of the loaded table gives %s' % (tag, col_, str(got_[1])[:80]))
                    read_before.add(col_)
            event_since_fit = True
        elif kind == 'clone':
            # the object is copied (copy.deepcopy / pickle round trip, e.g. to ship it to a worker or keep a checkpoint) and the
            # copy carries on: it must hold the same table and behave like the original for everything that follows
            import copy as _copy
            import pickle as _pickle
            res = outcome(lambda: _copy.deepcopy(obj) if op[1] % 2 == 0 else _pickle.loads(_pickle.dumps(obj)))
            if res[0] != 'ok':
                raise Violation('clone-raises', '%s: %s %s (history %s)' % (tag, res[0], res[1], history))
            new_obj = res[1]
            if (obj.df_features is None) != (new_obj.df_features is None):
                raise Violation('clone-table', '%s: table present %s / %s' % (tag, obj.df_features is not None, new_obj.df_features is not None))
            if obj.df_features is not None:
                ok, why = ref.frames_equal(new_obj.df_features, obj.df_features)
                if not ok:
                    raise Violation('clone-table', '%s: %s' % (tag, why))
            if gen.case_key_json(_plain(new_obj.thresholds)) != gen.case_key_json(_plain(obj.thresholds)):
                raise Violation('clone-settings', '%s: %s vs %s' % (tag, new_obj.thresholds, obj.thresholds))
            obj = new_obj
        elif kind == 'np_thresholds':
            # the same settings stored as numpy scalars (read from an array / a parameter table)
            if model.method != 'cycles':
                continue
            new = {k: (np.int64(v) if k == 'min_n_cycles' else [np.float32, np.float64, np.float16][op[1] % 3](v)) for k, v in model.th.items()}
            obj.thresholds = new
            model.th = {k: (int(v) if k == 'min_n_cycles' else float(v)) for k, v in new.items()}
            np_th = True
            event_since_fit = True
        elif kind == 'set_threshold':
            np_th = False if False else np_th
            key, v = op[1], op[2]
            valid = (list(default_thresholds(model.method)))
            key = valid[key % len(valid)]       # -1 selects min_n_cycles (last key of both default dicts)
            v = int(v * 8) % 5 if key == 'min_n_cycles' else v
            obj.thresholds[key] = v
            model.th[key] = v
            event_since_fit = True
        elif kind == 'set_extrema_option':
            # the cyclepoint options are a public attribute too: an in-place edit applies to this object (and only to this one)
            v = [0, 2, 5, 1][op[1] % 4]
            obj.find_extrema_kwargs['boundary'] = v
            model.fek['boundary'] = v
            event_since_fit = True
        elif kind == 'set_burst_option':
            if model.method != 'amp':
                continue
            key = ['min_n_cycles', 'amp_threshes'][op[1] % 2]
            v = (op[2] % 5) if key == 'min_n_cycles' else [[0.5, 1], [1, 2], [0.8, 1.5]][op[2] % 3]
            obj.burst_kwargs[key] = tuple(v) if isinstance(v, list) else v
            model.bk[key] = v
            event_since_fit = True
        elif kind == 'switch_method':
            m = 'amp' if model.method == 'cycles' else 'cycles'
            th = default_thresholds(m)
            th['min_n_cycles'] = op[1] % 4
            obj.burst_method = m
            obj.thresholds = dict(th)
            np_th = False
            model.method, model.th = m, dict(th)
            event_since_fit = True
        elif kind == 'switch_center':
            c = 'trough' if model.center == 'peak' else 'peak'
            obj.center_extrema = c
            model.center = c
            event_since_fit = True
        elif kind == 'read':
            if obj.df_features is None:
                res = outcome(lambda: obj.period)
                if res[0] != 'AttributeError':
                    raise Violation('attribute-before-fit', '%s -> %s' % (tag, res[0]))
                continue
            cols = list(obj.df_features.columns)
            burst_cols = [c for c in ('is_burst', 'amp_consistency', 'period_consistency', 'burst_fraction') if c in cols]
            col = burst_cols[op[1] % len(burst_cols)] if (op[1] % 3 == 0 and burst_cols) else cols[op[1] % len(cols)]
            extra_cols = [c_ for c_ in ('index', 'size', 'Label') if c_ in cols]
            if extra_cols and op[1] % 2 == 1:
                col = extra_cols[op[1] % len(extra_cols)]
            read_before.add(col)
            got = getattr(obj, col)
            if not (isinstance(got, np.ndarray) and (ref.same_float(got, obj.df_features[col].values) if got.dtype.kind == 'f'
                                                     else np.array_equal(got, obj.df_features[col].values))):
                raise Violation('attribute-access', '%s column %s' % (tag, col))
            res = outcome(lambda: getattr(obj, 'no_such_column_' + col))
            if res[0] != 'AttributeError':
                raise Violation('unknown-attribute', '%s -> %s' % (tag, res[0]))
        # attributes read earlier must keep following the table (no memoised columns)
        if obj is not None and obj.df_features is not None:
            for col in sorted(read_before):
                if col in obj.df_features.columns:
                    got = getattr(obj, col)
                    want = obj.df_features[col].values
                    if not (ref.same_float(got, want) if np.asarray(got).dtype.kind == 'f' else np.array_equal(got, want)):
                        raise Violation('attribute-stale', '%s: attribute %s no longer matches df_features[%r] (history %s)' % (tag, col, col, history))
        # Informational only: the statement is about results (a fit equals a fresh object's fit), not about the private
        # contents of the option dictionaries, so drift is measured but never reported as a violation.
        if (not np_th and gen.case_key_json(expand(gen.copy_json(_plain(obj.thresholds)))) != gen.case_key_json(_plain(model.th))) or \
                gen.case_key_json(_plain(obj.burst_kwargs)) != gen.case_key_json(_plain(model.bk)):
            drifted = True
    rec.label('fits:%s' % (fits if fits < 3 else '>=3'), 'amp-fit' if amp_fit else 'no-amp-fit',
              'refit-after-event' if fits_after_event else 'no-refit-after-event', 'buffer-fit' if 'fit_buffer' in history else 'no-buffer-fit',
              'object-dicts-drifted' if drifted else 'object-dicts-as-set')
    for k in set(history):
        rec.label('op:' + k)
    rec.nontrivial(fits_after_event >= 1 and amp_fit)


def _plain(d):
    """tuples -> lists so that JSON comparison is structural"""
    if isinstance(d, dict):
        return {k: _plain(v) for k, v in d.items()}
    if isinstance(d, (list, tuple)):
        return [_plain(v) for v in d]
    if isinstance(d, np.generic):
        return d.item()
    return d


# ------------------------------------------------------------------------------------------------ strategies

@st.composite
def st_settings(draw, band):
    method = draw(st.sampled_from(['cycles', 'amp']))
    s = {'center': draw(st.sampled_from(['peak', 'trough'])), 'method': method, 'return_samples': draw(st.sampled_from([True, True, False]))}
    if method == 'cycles':
        kind = draw(st.sampled_from(['none', 'full', 'short', 'mixed', 'empty']))
        if kind == 'empty':
            s['th'] = {}                  # an explicit empty dict: "the detector's defaults", with nothing a reduction could lower
        elif kind != 'none':
            vals = {k: draw(st.sampled_from([0.0, 0.2, 0.4, 0.6])) for k in CYC_SHORT}
            if kind == 'full':
                th = {k + '_threshold': v for k, v in vals.items()}
            elif kind == 'short':
                th = dict(vals)
            else:
                th = {(k if i % 2 else k + '_threshold'): v for i, (k, v) in enumerate(vals.items())}
            if draw(st.booleans()):
                th['min_n_cycles'] = draw(st.integers(1, 4))
            s['th'] = th
        if draw(st.integers(0, 3)) == 0:
            # amplitude-detection options left in place on a 'cycles' object: documented to be used for burst_method='amp' only
            s['bk'] = {'min_n_cycles': draw(st.integers(0, 6))}
    else:
        if draw(st.integers(0, 3)) > 0:
            th = {draw(st.sampled_from(['burst_fraction_threshold', 'burst_fraction'])): draw(st.sampled_from([0.5, 0.9, 1]))}
            if draw(st.booleans()):
                th['min_n_cycles'] = draw(st.integers(1, 5))
            s['th'] = th
        if draw(st.booleans()):
            bk = {}
            if draw(st.booleans()):
                bk['amp_threshes'] = draw(st.sampled_from([[0.5, 1], [1, 2], [0.8, 1.5]]))
            if draw(st.booleans()):
                bk['min_n_cycles'] = draw(st.integers(1, 4))
            s['bk'] = bk
    if draw(st.integers(0, 3)) == 0:
        s['fek'] = {'filter_kwargs': {'n_cycles': draw(st.sampled_from([2, 3, 4]))}, 'boundary': draw(st.sampled_from([0, 3]))}
    return s


@st.composite
def st_op(draw, band):
    kind = draw(st.sampled_from(['fit', 'fit', 'fit', 'fit', 'fit', 'fit', 'recompute', 'load', 'set_threshold', 'set_threshold',
                                 'set_burst_option', 'set_burst_option', 'switch_method', 'switch_method', 'switch_center', 'read',
                                 'read', 'construct', 'construct', 'np_thresholds', 'recompute', 'clone', 'set_extrema_option']))
    if kind == 'fit' or kind == 'load':
        if kind == 'fit' and draw(st.integers(0, 3)) == 0:
            kind = 'fit_buffer'
        return [kind, draw(st.sampled_from([0, 1, 2, 3, -1, -1]) if kind != 'load' else st.integers(0, 3))]
    if kind == 'recompute':
        return [kind, draw(st.sampled_from([None, 0, 0.05, 0.1, 0.3])), draw(st.integers(0, 2)) == 0]
    if kind == 'np_thresholds' or kind == 'clone' or kind == 'set_extrema_option':
        return [kind, draw(st.integers(0, 2))]
    if kind == 'set_threshold':
        return [kind, draw(st.sampled_from([0, 1, 2, 3, 4, -1, -1, -1])), draw(st.sampled_from([0.0, 0.125, 0.25, 0.5, 0.75]))]
    if kind == 'set_burst_option':
        return [kind, draw(st.integers(0, 1)), draw(st.integers(0, 5))]
    if kind == 'switch_method':
        return [kind, draw(st.integers(0, 3))]
    if kind == 'read':
        return [kind, draw(st.integers(0, 40))]
    if kind == 'construct':
        return [kind, draw(st_settings(band))]
    return [kind]


@st.composite
def strategy(draw, tier):
    band, n = draw(gc.st_group_base(max_len=900))
    signals = [draw(gc.st_row_signal(band, n, k)) for k in range(4)]
    for s in signals:
        s['comps'][0]['type'] = draw(st.sampled_from(['bursty', 'bursty', 'asym']))
        s['comps'][0]['segs'] = [3.0, 2.0, 6.0, 2.0]
    ops = draw(st.lists(st_op(band), min_size=2, max_size=14))
    return {'fs': band['fs'], 'f_range': band['f_range'], 'signals': signals, 'initial': draw(st_settings(band)), 'ops': ops}


# ------------------------------------------------------------------------------------------------ BycycleGroup histories

def check_group(case, rec):
    fs, fr = case['fs'], tuple(case['f_range'])
    s = case['settings']
    m = Model(s)
    kw = m.kwargs()
    with warnings.catch_warnings():
        warnings.simplefilter('ignore')
        bg = BycycleGroup(center_extrema=kw['center_extrema'], burst_method=kw['burst_method'], burst_kwargs=kw['burst_kwargs'],
                          thresholds=gen.copy_json(s.get('th')), find_extrema_kwargs=kw['find_extrema_kwargs'], return_samples=kw['return_samples'])
    nfits = 0
    rebound = False
    for step, op in enumerate(case['ops']):
        if op[0] == 'clone':
            # the fitted group is copied (checkpoint / hand-over to another process) and the copy carries on
            import copy as _copy
            import pickle as _pickle
            try:
                with warnings.catch_warnings():
                    warnings.simplefilter('ignore')
                    bg = _copy.deepcopy(bg) if op[1] % 2 == 0 else _pickle.loads(_pickle.dumps(bg))
            except Exception as exc:  # noqa
                raise Violation('group-clone-raises', 'step %d: %s %s' % (step, type(exc).__name__, str(exc)[:120]))
            continue
        if op[0] == 'fit':
            shape = op[1]
            base = [gen.render_signal(sg) for sg in case['signals']]
            if len(shape) == 1:
                X = np.array([base[(i + op[2]) % len(base)] for i in range(shape[0])])
                axis = 0
            else:
                X = np.array([[base[(i * shape[1] + j + op[2]) % len(base)] for j in range(shape[1])] for i in range(shape[0])])
                axis = (0, 1)
            res = outcome(lambda: with_timeout(lambda: bg.fit(X, fs, fr, axis=axis, n_jobs=op[3]), 120))
            if res[0] == 'Discard':
                raise Discard('timeout')
            if res[0] != 'ok':
                raise Violation('group-fit-raises', 'step %d: %s %s' % (step, res[0], res[1]))
            nfits += 1
            rebound = False
            pos = [(i,) for i in range(shape[0])] if len(shape) == 1 else [(i, j) for i in range(shape[0]) for j in range(shape[1])]
            if len(bg.models) != shape[0] or (len(shape) == 2 and any(len(r) != shape[1] for r in bg.models)):
                raise Violation('group-models-layout', 'step %d (fit #%d): %d models for shape %s' % (step, nfits, len(bg.models), shape))
            for p in pos:
                mdl = bg.models[p[0]] if len(p) == 1 else bg.models[p[0]][p[1]]
                tab = bg.df_features[p[0]] if len(p) == 1 else bg.df_features[p[0]][p[1]]
                sig = X[p]
                want = gc.reference(sig, fs, fr, {k: v for k, v in m.kwargs().items() if k != 'return_samples'}, return_samples=m.rs)
                ok, why = ref.frames_equal(tab, want)
                if not ok:
                    raise Violation('group-table-differs', 'step %d position %s: %s' % (step, p, why))
                if mdl.df_features is not tab and not ref.frames_equal(mdl.df_features, tab)[0]:
                    raise Violation('group-model-table', 'step %d position %s' % (step, p))
                if not np.array_equal(mdl.sig, sig):
                    raise Violation('group-model-signal', 'step %d position %s' % (step, p))
        elif op[0] == 'rebind':
            # settings are public attributes: assigning a new value / a new dict must take effect at the next fit
            if op[1] == 0:
                new_c = 'trough' if m.center == 'peak' else 'peak'
                bg.center_extrema = new_c
                m.center = new_c
            else:
                new_th = dict(m.th) or dict(default_thresholds(m.method))      # an empty settings dict is re-bound to a spelled-out one
                keys = [k for k in new_th if k != 'min_n_cycles'] or list(new_th)
                key = keys[op[2] % len(keys)]
                new_th[key] = [0.0, 0.3, 0.6][op[2] % 3] if key != 'min_n_cycles' else 1 + op[2] % 3
                bg.thresholds = dict(new_th)
                m.th = dict(new_th)
            rebound = True        # the statement fixes what the NEXT FIT yields; what the already built models use is unspecified
        elif op[0] == 'set_threshold':
            valid = list(default_thresholds(m.method))
            key = valid[op[1] % len(valid)]
            v = int(op[2] * 8) % 4 + 1 if key == 'min_n_cycles' else op[2]
            bg.thresholds[key] = v            # the settings object the group was constructed with / exposes
            m.th[key] = v
        elif op[0] == 'recompute' and nfits and m.method == 'cycles' and not rebound:
            flat_models = [mm for r in bg.models for mm in (r if isinstance(r, list) else [r])]
            before = [mm.df_features.copy(deep=True) for mm in flat_models]
            r = op[1]
            red = {k: (v - (r or 0) if k.endswith('threshold') else v) for k, v in m.th.items()}
            res = outcome(lambda: bg.recompute_edges(r))
            want = [outcome(lambda b=b: recompute_edges(b, dict(red))) for b in before]
            if res[0] == 'ok':
                for mm, w in zip(flat_models, want):
                    if w[0] != 'ok' or not ref.frames_equal(mm.df_features, w[1])[0]:
                        raise Violation('group-recompute-differs', 'step %d r=%r' % (step, r))
            elif any(w[0] == 'ok' for w in want[:1]):
                raise Violation('group-recompute-raises', 'step %d: %s %s' % (step, res[0], res[1]))
    rec.label('fits:%d' % nfits, 'method:' + m.method)
    rec.nontrivial(nfits >= 2)


@st.composite
def strat_group(draw, tier):
    band, n = draw(gc.st_group_base(max_len=450))
    signals = [draw(gc.st_row_signal(band, n, k)) for k in range(5)]
    ops = []
    for _ in range(draw(st.integers(1, 4))):
        if draw(st.integers(0, 2)) == 0:
            if draw(st.integers(0, 2)) > 0:
                ops.append(['set_threshold', draw(st.integers(0, 4)), draw(st.sampled_from([0.0, 0.125, 0.5, 0.875]))])
            ops.append(['recompute', draw(st.sampled_from([None, 0.05, 0.2]))])
        elif draw(st.integers(0, 3)) == 0:
            ops.append(['rebind', draw(st.integers(0, 1)), draw(st.integers(0, 5))])
        elif ops and draw(st.integers(0, 3)) == 0:
            ops.append(['clone', draw(st.integers(0, 1))])
        else:
            shape = draw(st.sampled_from([[1], [2], [3], [1, 2], [2, 2], [2, 1], [3, 2]]))
            ops.append(['fit', shape, draw(st.integers(0, 4)), draw(st.sampled_from([1, 2]))])
    if draw(st.integers(0, 2)) == 0:
        # the tuning loop on a group: fit, replace / edit the thresholds (perhaps on a copy of the group), fit the same layout
        # again, recompute the edges
        shape = draw(st.sampled_from([[2], [3], [2, 2], [1, 2]]))
        ops = [['fit', shape, draw(st.integers(0, 4)), 1]]
        if draw(st.integers(0, 2)) > 0:
            ops.append(['clone', draw(st.sampled_from([0, 0, 0, 1]))])
        ops.append(draw(st.sampled_from([['rebind', 1, 0], ['rebind', 1, 4], ['set_threshold', 1, 0.125], ['set_threshold', 3, 0.125], ['set_threshold', 2, 0.125], ['set_threshold', 4, 0.5]])))
        if draw(st.integers(0, 2)) == 0:
            ops.append(['fit', shape, draw(st.integers(0, 4)), 1])
        ops.append(['recompute', draw(st.sampled_from([None, 0.05]))])
    return {'fs': band['fs'], 'f_range': band['f_range'], 'signals': signals, 'settings': draw(st_settings(band)), 'ops': ops}


def enum_shortest(tier, shard, nshards):
    """recordings one to three samples longer than the three-cycle filter, over a grid of sampling rates and bands (the lengths at
    which a duplicated length rule would first disagree with the functional API)"""
    rates = [100, 128, 250, 441, 500, 503, 512, 1000] if tier == 'quick' else [100, 125, 128, 200, 250, 256, 300, 333, 441, 500, 503, 512, 600, 1000, 1024, 2000]
    idx = 0
    for fs in rates:
        for f_lo in range(3, 31):
            if fs / f_lo < 6:
                continue
            for extra in (-1, 0, 1, 2, 3):
                for center in ('peak', 'trough'):
                    idx += 1
                    if idx % nshards != shard:
                        continue
                    yield {'fs': fs, 'f_lo': f_lo, 'extra': extra, 'center': center, 'fek': [None, {'boundary': 0}, {'filter_kwargs': {'n_cycles': 2}}][idx % 3]}


def check_shortest(case, rec):
    import math
    fs, f_lo = case['fs'], case['f_lo']
    fr = (f_lo, f_lo * 1.5)
    L = int(math.ceil(3 * fs / f_lo))
    L = L + 1 if L % 2 == 0 else L
    n = L + case['extra']
    t = np.arange(n) / fs
    x = np.sin(2 * np.pi * f_lo * 1.2 * t + 0.3) + 0.2 * np.sin(2 * np.pi * f_lo * 3.1 * t) + 0.05 * np.cos(0.37 * np.arange(n) ** 1.5)
    kw = dict(center_extrema=case['center'], find_extrema_kwargs=gen.copy_json(case['fek']), return_samples=True)
    res_fun = outcome(lambda: compute_features(x.copy(), fs, fr, **kw))
    bm = Bycycle(center_extrema=case['center'], find_extrema_kwargs=gen.copy_json(case['fek']), return_samples=True)
    res_obj = outcome(lambda: bm.fit(x.copy(), fs, fr))
    if res_fun[0] != res_obj[0]:
        raise Violation('fit-outcome-differs-from-functional', 'fs=%s f_range=%s n=%d (filter %d): compute_features -> %s %s, Bycycle.fit -> %s %s' % (
            fs, fr, n, L, res_fun[0], '' if res_fun[0] == 'ok' else res_fun[1], res_obj[0], '' if res_obj[0] == 'ok' else res_obj[1]))
    if res_fun[0] == 'ok':
        ok, why = ref.frames_equal(bm.df_features, res_fun[1])
        if not ok:
            raise Violation('fit-differs-from-functional', 'fs=%s f_range=%s n=%d: %s' % (fs, fr, n, why))
    rec.label('accepted' if res_fun[0] == 'ok' else 'rejected:' + res_fun[0], 'extra:%d' % case['extra'])
    rec.nontrivial(res_fun[0] == 'ok')


PARTS = [
    Part('shortest-signals', check_shortest, enum=enum_shortest, shards={'quick': 4, 'thorough': 8}, exhaustive=True,
         time_cap={'quick': 150, 'thorough': 900}),
    Part('object-history', check, strategy=strategy, budget={'quick': 640, 'thorough': 12000}, shards={'quick': 16, 'thorough': 16}),
    Part('group-history', check_group, strategy=strat_group, budget={'quick': 160, 'thorough': 3000}, shards={'quick': 16, 'thorough': 16},
         time_cap={'quick': 200, 'thorough': 3000}),
]
