"""C19 - Invalid settings are rejected, never silently analysed."""
import itertools
import math
import warnings

import numpy as np
import pandas as pd
from hypothesis import strategies as st

import gen
import ref
from harness import Part, Violation, Discard, with_timeout

from bycycle import Bycycle, BycycleGroup
from bycycle.features import compute_features, compute_shape_features, compute_cyclepoints
from bycycle.features.burst import compute_burst_fraction, compute_amp_consistency, compute_period_consistency
from bycycle.features.shape import compute_band_amp
from bycycle.cyclepoints import find_extrema
from bycycle.burst import detect_bursts_cycles, detect_bursts_amp, recompute_edges
from bycycle.burst.utils import check_min_burst_cycles, recompute_edge
from bycycle.group import compute_features_2d, compute_features_3d
from bycycle.group.utils import check_kwargs_shape, progress_bar

ID = 'C19'
TITLE = 'Invalid settings are rejected, never silently analysed'
REGISTER = True
TECHNIQUE = ('exhaustive enumeration of the (array shape x axis x option-list shape) decision table through check_kwargs_shape, '
             'compute_features_2d/3d and BycycleGroup.fit against the documented table, plus Hypothesis-generated contexts for every '
             'documented scalar / enumerated option at, just inside and just outside its range at every anchored entry point')
LEVEL_TEXT = ('Exhaustive: 1428 grid cells (2-D n0 in 1..3, 3-D n0,n1 in 1..3, 7 axis values, 17 option-list shapes) through '
              'check_kwargs_shape and end to end (tiny real signals, n_jobs 1/2); Hypothesis: 1.5k (quick) / 40k (thorough) invalid or '
              'boundary-valid calls over 60+ (entry point, parameter, value) templates in generated valid contexts. The grid is complete; '
              'the scalar part samples contexts.')
RULE = ('grid: sigs of shape (n0, L) or (n0, n1, L) with n0, n1 in 1..3; axis in {0, 1, (0,1), None, 2, (1,0), "x"}; compute_features_kwargs '
        'in {None, dict, 1-D list len 1..4, 2-D list (1..3)x(1..3), 3-D list, ragged list}; expected verdict from the documented table '
        '(2-D: axis 0/None with None/dict/(n0,); 3-D: axis 0 -> (n0,), 1 -> (n1,), (0,1) -> (n0,n1); None/dict always fine for a valid '
        'axis). Invalid -> ValueError (any other exception type or a returned result is a violation); valid -> returns a list of the right '
        'layout. scalars: each template = (entry point, parameter, invalid value | boundary-valid value) executed in a generated valid '
        'context (signal, fs, band, centring, method, thresholds). Non-trivial: every cell / template instance counts (each is a distinct '
        'configuration); rejected and accepted cells are counted separately in the labels.')
ASSUMPTIONS = ['only the anchored entry points are C19 entry points (plot and dataframe utilities are not)',
               'valid cells are run on tiny noisy sine signals that satisfy the C01 precondition']
TRUSTED = ['numpy', 'pandas']

FS = 100
BAND = (8, 12)
L = 160
AXES = [0, 1, [0, 1], None, 2, [1, 0], 'x']


def tiny_signal(k, n=L):
    t = np.arange(n) / FS
    rng = np.random.default_rng(1000 + k)
    return np.sin(2 * np.pi * (9.5 + 0.2 * (k % 5)) * t + 0.3 * k) + 0.15 * rng.standard_normal(n)


def make_sigs(shape):
    if len(shape) == 1:
        return np.array([tiny_signal(i) for i in range(shape[0])])
    return np.array([[tiny_signal(i * shape[1] + j) for j in range(shape[1])] for i in range(shape[0])])


def kw_entry(i):
    return {'threshold_kwargs': {'amp_fraction_threshold': 0.0, 'amp_consistency_threshold': 0.1 + 0.05 * (i % 7),
                                 'period_consistency_threshold': 0.3, 'monotonicity_threshold': 0.3, 'min_n_cycles': 2}}


def make_kwargs(spec):
    kind = spec[0]
    if kind == 'none':
        return None
    if kind == 'dict':
        return kw_entry(0)
    if kind == '1d':
        return [kw_entry(i) for i in range(spec[1])]
    if kind == '2d':
        return [[kw_entry(i * spec[2] + j) for j in range(spec[2])] for i in range(spec[1])]
    if kind == '3d':
        return [[[kw_entry(0), kw_entry(1)], [kw_entry(2), kw_entry(3)]], [[kw_entry(4), kw_entry(5)], [kw_entry(6), kw_entry(7)]]]
    if kind == 'ragged':
        return [[kw_entry(0), kw_entry(1)], [kw_entry(2)]]
    raise ValueError(kind)


KW_SPECS = ([['none'], ['dict']] + [['1d', k] for k in range(1, 5)] +
            [['2d', a, b] for a in range(1, 4) for b in range(1, 4)] + [['3d'], ['ragged']])


def axis_value(a):
    return tuple(a) if isinstance(a, list) else a


def expected_valid(shape, axis, spec):
    """documented decision table"""
    a = axis_value(axis)
    kind = spec[0]
    if len(shape) == 1:
        if a not in (0, None) or isinstance(a, bool):
            return False
        if kind in ('none', 'dict'):
            return True
        return kind == '1d' and spec[1] == shape[0]
    if a not in (0, 1, (0, 1)):
        return False
    if kind in ('none', 'dict'):
        return True
    if a == 0:
        return kind == '1d' and spec[1] == shape[0]
    if a == 1:
        return kind == '1d' and spec[1] == shape[1]
    return kind == '2d' and (spec[1], spec[2]) == tuple(shape)


def all_cells():
    shapes = [[n0] for n0 in (1, 2, 3)] + [[n0, n1] for n0 in (1, 2, 3) for n1 in (1, 2, 3)]
    for shape in shapes:
        for axis in AXES:
            for spec in KW_SPECS:
                yield {'shape': shape, 'axis': axis, 'kw': spec}


def outcome(fn):
    """('ok', result) | ('ValueError', msg) | ('other', 'Type: msg')"""
    try:
        with warnings.catch_warnings():
            warnings.simplefilter('ignore')
            return 'ok', with_timeout(fn, 30)
    except Discard:
        raise
    except ValueError as exc:
        return 'ValueError', str(exc)[:120]
    except Exception as exc:  # noqa
        return 'other', '%s: %s' % (type(exc).__name__, str(exc)[:160])


def judge(tag, valid, res, what):
    kind, val = res
    if valid and kind != 'ok':
        raise Violation(tag + ':valid-combination-rejected', '%s -> %s %s' % (what, kind, val))
    if not valid and kind == 'ok':
        raise Violation(tag + ':invalid-combination-accepted', '%s returned %s' % (what, type(val).__name__))
    if not valid and kind == 'other':
        raise Violation(tag + ':wrong-exception-type', '%s -> %s' % (what, val))


def check_grid_fast(case, rec):
    shape, axis, spec = case['shape'], axis_value(case['axis']), case['kw']
    sigs = np.zeros(tuple(shape) + (8,))
    what = 'sigs%s axis=%r kwargs=%s' % (tuple(shape) + (8,), axis, spec)
    valid = expected_valid(shape, case['axis'], spec)
    kwargs = make_kwargs(spec)
    if spec[0] in ('none', 'dict'):
        # check_kwargs_shape does not look at the axis for None / dict (the group functions do): only "never raises"
        res = outcome(lambda: check_kwargs_shape(sigs, kwargs, axis))
        if res[0] != 'ok':
            raise Violation('check_kwargs_shape:raises-for-dict-or-none', '%s -> %s' % (what, res[1]))
    else:
        def call():
            return check_kwargs_shape(sigs, np.array(kwargs), axis)
        judge('check_kwargs_shape', valid, outcome(call), what)
    rec.label('valid' if valid else 'invalid', 'ndim:%d' % (len(shape) + 1), 'kw:' + spec[0])
    rec.nontrivial(True)


def layout_ok(res, shape, axis):
    if len(shape) == 1:
        return isinstance(res, list) and len(res) == shape[0] and all(isinstance(r, pd.DataFrame) for r in res)
    return (isinstance(res, list) and len(res) == shape[0] and
            all(isinstance(r, list) and len(r) == shape[1] and all(isinstance(d, pd.DataFrame) for d in r) for r in res))


def check_grid_e2e(case, rec):
    shape, axis, spec = case['shape'], axis_value(case['axis']), case['kw']
    sigs = make_sigs(shape)
    valid = expected_valid(shape, case['axis'], spec)
    what = 'sigs%s axis=%r kwargs=%s' % (sigs.shape, axis, spec)
    fn = compute_features_2d if sigs.ndim == 2 else compute_features_3d
    n_jobs = case['n_jobs']
    res = outcome(lambda: fn(sigs, FS, BAND, compute_features_kwargs=make_kwargs(spec), axis=axis, n_jobs=n_jobs))
    judge(fn.__name__, valid, res, what)
    if valid and not layout_ok(res[1], shape, axis):
        raise Violation(fn.__name__ + ':result-layout', what)
    if spec[0] == 'dict':
        # the object API carries exactly one option set: the axis x dimensionality part of the table
        th = kw_entry(0)['threshold_kwargs']

        def fit():
            bg = BycycleGroup(thresholds=dict(th))
            bg.fit(sigs, FS, BAND, axis=axis, n_jobs=n_jobs)
            return bg.df_features
        res = outcome(fit)
        judge('BycycleGroup.fit', valid, res, what)
        if valid and not layout_ok(res[1], shape, axis):
            raise Violation('BycycleGroup.fit:result-layout', what)
    rec.label('valid' if valid else 'invalid', 'ndim:%d' % sigs.ndim, 'kw:' + spec[0], 'n_jobs:%d' % n_jobs)
    rec.nontrivial(True)


def enum_fast(tier, shard, nshards):
    for i, cell in enumerate(all_cells()):
        if i % nshards == shard:
            yield cell


def enum_e2e(tier, shard, nshards):
    for i, cell in enumerate(all_cells()):
        if i % nshards != shard:
            continue
        cell = dict(cell, n_jobs=1 + (i % 2))
        yield cell


# -------------------------------------------------------------------------------------------------
# scalar / enumerated parameters at the anchored entry points

TINY_NEG = -5e-324
ABOVE1 = math.nextafter(1.0, 2.0)
CYC_KEYS = ['amp_fraction_threshold', 'amp_consistency_threshold', 'period_consistency_threshold', 'monotonicity_threshold']


class Ctx:
    """a valid analysis context built from a generated case"""

    def __init__(self, case):
        self.x = gen.render_signal(case['sig'])
        self.fs = case['fs']
        self.fr = tuple(case['f_range'])
        self.center = case['center']
        with warnings.catch_warnings():
            warnings.simplefilter('ignore')
            try:
                self.th = {'amp_fraction_threshold': 0.0, 'amp_consistency_threshold': 0.3, 'period_consistency_threshold': 0.3,
                           'monotonicity_threshold': 0.4, 'min_n_cycles': 2}
                self.df_cyc = compute_features(self.x, self.fs, self.fr, center_extrema=self.center, threshold_kwargs=dict(self.th))
                self.df_amp = compute_features(self.x, self.fs, self.fr, center_extrema=self.center, burst_method='amp',
                                               threshold_kwargs={'burst_fraction_threshold': 0.8, 'min_n_cycles': 2})
                self.df_samples = compute_cyclepoints(self.x, self.fs, self.fr)
            except Exception as exc:  # noqa
                raise Discard('context is not analysable (%s)' % type(exc).__name__)
        if len(self.df_cyc) < 4:
            raise Discard('fewer than four cycles in the context')


def T(entry, param, value, valid, fn):
    return {'entry': entry, 'param': param, 'value': value, 'valid': valid, 'fn': fn}


def _plot_after_rejected_fit(c, **settings):
    """fit() is rejected for invalid settings; plotting the still unfitted object must be rejected as well"""
    bm = Bycycle(**settings)
    try:
        bm.fit(c.x, c.fs, c.fr)
    except ValueError:
        pass
    else:
        raise AssertionError('the invalid fit was accepted')     # judged by the fit templates, not here
    return bm.plot()


def _refit_after_edit(c, key, bad):
    """a valid fit, an in-place edit of a setting to an invalid value, the same fit again: must be rejected"""
    bm = Bycycle(thresholds=dict(c.th))
    bm.fit(c.x, c.fs, c.fr)
    bm.thresholds[key] = bad
    return bm.fit(c.x, c.fs, c.fr)


def templates():
    out = []
    bad_fs = [0, TINY_NEG, -1, -250.0]
    for v in bad_fs:
        out += [
            T('compute_features', 'fs', v, False, lambda c, v=v: compute_features(c.x, v, c.fr, threshold_kwargs=dict(c.th))),
            T('compute_features[amp]', 'fs', v, False, lambda c, v=v: compute_features(c.x, v, c.fr, burst_method='amp', threshold_kwargs={})),
            T('compute_shape_features', 'fs', v, False, lambda c, v=v: compute_shape_features(c.x, v, c.fr)),
            T('compute_cyclepoints', 'fs', v, False, lambda c, v=v: compute_cyclepoints(c.x, v, c.fr)),
            T('find_extrema', 'fs', v, False, lambda c, v=v: find_extrema(c.x, v, c.fr)),
            T('compute_band_amp', 'fs', v, False, lambda c, v=v: compute_band_amp(c.df_samples, c.x, v, c.fr)),
            T('compute_burst_fraction', 'fs', v, False, lambda c, v=v: compute_burst_fraction(c.df_samples, c.x, v, c.fr)),
            T('Bycycle.fit', 'fs', v, False, lambda c, v=v: Bycycle(thresholds=dict(c.th)).fit(c.x, v, c.fr)),
            T('compute_features_2d', 'fs', v, False, lambda c, v=v: compute_features_2d(np.array([c.x, c.x[::-1]]), v, c.fr, {'threshold_kwargs': dict(c.th)}, n_jobs=1)),
            T('BycycleGroup.fit', 'fs', v, False, lambda c, v=v: BycycleGroup(thresholds=dict(c.th)).fit(np.array([c.x, c.x[::-1]]), v, c.fr, n_jobs=1)),
        ]
    for key in CYC_KEYS:
        for v, ok in [(TINY_NEG, False), (ABOVE1, False), (-1, False), (2, False), (0, True), (1, True), (0.0, True), (1.0, True)]:
            out += [
                T('detect_bursts_cycles', key, v, ok, lambda c, k=key, v=v: detect_bursts_cycles(c.df_cyc.copy(), **{k: v})),
                T('compute_features', key, v, ok, lambda c, k=key, v=v: compute_features(c.x, c.fs, c.fr, center_extrema=c.center, threshold_kwargs={k: v})),
                T('Bycycle.fit', key, v, ok, lambda c, k=key, v=v: Bycycle(center_extrema=c.center, thresholds=dict(c.th, **{k: v})).fit(c.x, c.fs, c.fr)),
                T('Bycycle.fit[shorthand]', key, v, ok, lambda c, k=key, v=v: Bycycle(thresholds={k.replace('_threshold', ''): v}).fit(c.x, c.fs, c.fr)),
                T('recompute_edges', key, v, ok, lambda c, k=key, v=v: recompute_edges(c.df_cyc, dict(c.th, **{k: v}))),
            ]
    for v, ok in [(TINY_NEG, False), (ABOVE1, False), (-0.5, False), (3, False), (0, True), (1, True), (1.0, True)]:
        out += [
            T('detect_bursts_amp', 'burst_fraction_threshold', v, ok, lambda c, v=v: detect_bursts_amp(c.df_amp.copy(), burst_fraction_threshold=v)),
            T('compute_features[amp]', 'burst_fraction_threshold', v, ok, lambda c, v=v: compute_features(c.x, c.fs, c.fr, burst_method='amp', threshold_kwargs={'burst_fraction_threshold': v})),
            T('Bycycle.fit[amp]', 'burst_fraction_threshold', v, ok, lambda c, v=v: Bycycle(burst_method='amp', thresholds={'burst_fraction_threshold': v}).fit(c.x, c.fs, c.fr)),
        ]
    for v, ok in [(-1, False), (TINY_NEG, False), (-3, False), (0, True), (1, True)]:
        out += [
            T('check_min_burst_cycles', 'min_n_cycles', v, ok, lambda c, v=v: check_min_burst_cycles(np.array([False, True, True, False, True]), min_n_cycles=v)),
            T('check_min_burst_cycles[no-burst]', 'min_n_cycles', v, ok, lambda c, v=v: check_min_burst_cycles(np.zeros(5, dtype=bool), min_n_cycles=v)),
            T('detect_bursts_cycles', 'min_n_cycles', v, ok, lambda c, v=v: detect_bursts_cycles(c.df_cyc.copy(), min_n_cycles=v, **{k: c.th[k] for k in CYC_KEYS})),
            T('detect_bursts_cycles[strict]', 'min_n_cycles', v, ok, lambda c, v=v: detect_bursts_cycles(c.df_cyc.copy(), min_n_cycles=v, monotonicity_threshold=1.0, amp_fraction_threshold=1.0)),
            T('detect_bursts_amp', 'min_n_cycles', v, ok, lambda c, v=v: detect_bursts_amp(c.df_amp.copy(), burst_fraction_threshold=0.5, min_n_cycles=v)),
            T('compute_features[thresholds]', 'min_n_cycles', v, ok, lambda c, v=v: compute_features(c.x, c.fs, c.fr, threshold_kwargs=dict(c.th, min_n_cycles=v))),
            T('compute_features[strict]', 'min_n_cycles', v, ok, lambda c, v=v: compute_features(c.x, c.fs, c.fr, threshold_kwargs={'monotonicity_threshold': 1.0, 'amp_fraction_threshold': 1.0, 'min_n_cycles': v})),
            T('compute_features[amp,thresholds]', 'min_n_cycles', v, ok, lambda c, v=v: compute_features(c.x, c.fs, c.fr, burst_method='amp', threshold_kwargs={'min_n_cycles': v})),
            T('compute_features[amp,burst-options]', 'min_n_cycles', v, ok, lambda c, v=v: compute_features(c.x, c.fs, c.fr, burst_method='amp', burst_kwargs={'min_n_cycles': v}, threshold_kwargs={})),
            T('Bycycle.fit', 'min_n_cycles', v, ok, lambda c, v=v: Bycycle(thresholds=dict(c.th, min_n_cycles=v)).fit(c.x, c.fs, c.fr)),
            T('recompute_edges', 'min_n_cycles', v, ok, lambda c, v=v: recompute_edges(c.df_cyc, dict(c.th, min_n_cycles=v))),
        ]
    for v, ok in [((2, 1), False), ((-1, 2), False), ((-0.5, -0.2), False), ((1.5, 1.0), False), ((1, 1), True), ((0.5, 3), True)]:
        out += [
            T('compute_burst_fraction', 'amp_threshes', v, ok, lambda c, v=v: compute_burst_fraction(c.df_samples, c.x, c.fs, c.fr, amp_threshes=v)),
            T('compute_features[amp]', 'amp_threshes', v, ok, lambda c, v=v: compute_features(c.x, c.fs, c.fr, burst_method='amp', burst_kwargs={'amp_threshes': v}, threshold_kwargs={})),
            T('Bycycle.fit[amp]', 'amp_threshes', v, ok, lambda c, v=v: Bycycle(burst_method='amp', burst_kwargs={'amp_threshes': v}, thresholds={'burst_fraction_threshold': 1}).fit(c.x, c.fs, c.fr)),
        ]
    for v in ['Peak', 'both', None, 'troughs', 0]:
        out += [
            T('compute_features', 'center_extrema', v, False, lambda c, v=v: compute_features(c.x, c.fs, c.fr, center_extrema=v, threshold_kwargs=dict(c.th))),
            T('compute_shape_features', 'center_extrema', v, False, lambda c, v=v: compute_shape_features(c.x, c.fs, c.fr, center_extrema=v)),
            T('Bycycle.fit', 'center_extrema', v, False, lambda c, v=v: Bycycle(center_extrema=v, thresholds=dict(c.th)).fit(c.x, c.fs, c.fr)),
        ]
    for v in ['cycle', 'amplitude', None, 'AMP']:
        out += [
            T('compute_features', 'burst_method', v, False, lambda c, v=v: compute_features(c.x, c.fs, c.fr, burst_method=v, threshold_kwargs=dict(c.th))),
            T('Bycycle.fit', 'burst_method', v, False, lambda c, v=v: Bycycle(burst_method=v, thresholds=dict(c.th)).fit(c.x, c.fs, c.fr)),
        ]
    for v in ['rise', 'Peak', 0, 'first']:
        out += [T('find_extrema', 'first_extrema', v, False, lambda c, v=v: find_extrema(c.x, c.fs, c.fr, first_extrema=v))]
    for v in ['rise', 'Peak', 0, 'first', 'peaks']:
        # the same unknown value through every public wrapper that forwards options to find_extrema
        out += [T('compute_cyclepoints', 'first_extrema', v, False, lambda c, v=v: compute_cyclepoints(c.x, c.fs, c.fr, first_extrema=v)),
                T('compute_cyclepoints', 'first_extrema+boundary', v, False, lambda c, v=v: compute_cyclepoints(c.x, c.fs, c.fr, boundary=0, first_extrema=v))]
    for v in ['fail', 'Peak', '', 0]:
        # ... also when the boundary leaves no extremum at all (nothing to return is no reason to accept an unknown option)
        out += [T('find_extrema[boundary >= half the recording]', 'first_extrema', v, False, lambda c, v=v: find_extrema(c.x, c.fs, c.fr, boundary=len(c.x) // 2 + 1, first_extrema=v))]
    for lo, hi in [(1.000005, 1.0), (2.000001, 2.0), (float(np.nextafter(1.0, 2.0)), 1.0), (0.3, 3 * 0.1 - 1e-7), (1.5, 1.0)]:
        # reversed amplitude thresholds, however slightly
        out += [T('compute_burst_fraction', 'amp_threshes', (lo, hi), False, lambda c, lo=lo, hi=hi: compute_burst_fraction(c.df_samples, c.x, c.fs, c.fr, amp_threshes=(lo, hi))),
                T('compute_features[amp]', 'burst_kwargs.amp_threshes', (lo, hi), False, lambda c, lo=lo, hi=hi: compute_features(c.x, c.fs, c.fr, burst_method='amp', burst_kwargs={'amp_threshes': (lo, hi)},
                                                                                                                                      threshold_kwargs={'burst_fraction_threshold': 1, 'min_n_cycles': 3}))]
    for v in ['peak', 'trough', None]:
        out += [T('find_extrema', 'first_extrema', v, True, lambda c, v=v: find_extrema(c.x, c.fs, c.fr, first_extrema=v)),
                T('compute_shape_features', 'find_extrema_kwargs.first_extrema', v, False, lambda c, v=v: compute_shape_features(c.x, c.fs, c.fr, find_extrema_kwargs={'first_extrema': v}))]
    for v, ok in [('next', True), ('last', True), ('both', True), ('Next', False), ('forward', False), (None, False), ('', False)]:
        out += [
            T('compute_amp_consistency', 'direction', v, ok, lambda c, v=v: compute_amp_consistency(c.df_cyc, direction=v)),
            T('compute_period_consistency', 'direction', v, ok, lambda c, v=v: compute_period_consistency(c.df_cyc, direction=v)),
            T('recompute_edge', 'direction', v, ok, lambda c, v=v: recompute_edge(c.df_cyc.copy(), 2, v)),
        ]
    for v in ['Next', 'forward', None, 'previous']:
        # tables with fewer than three cycles (a sliced table, a very short recording) and a flat table
        out += [
            T('compute_amp_consistency[2 rows]', 'direction', v, False, lambda c, v=v: compute_amp_consistency(c.df_cyc.iloc[:2].reset_index(drop=True), direction=v)),
            T('compute_amp_consistency[1 row]', 'direction', v, False, lambda c, v=v: compute_amp_consistency(c.df_cyc.iloc[:1].reset_index(drop=True), direction=v)),
            T('compute_period_consistency[2 rows]', 'direction', v, False, lambda c, v=v: compute_period_consistency(c.df_cyc.iloc[:2].reset_index(drop=True), direction=v)),
            T('compute_amp_consistency[flat]', 'direction', v, False, lambda c, v=v: compute_amp_consistency(c.df_cyc.assign(volt_rise=0.0, volt_decay=0.0), direction=v)),
        ]
    for key, bad in [('amp_fraction_threshold', 1.5), ('monotonicity_threshold', -0.1), ('min_n_cycles', -1)]:
        out += [T('Bycycle.fit[refit after in-place edit]', key, bad, False, lambda c, key=key, bad=bad: _refit_after_edit(c, key, bad))]
    for v in [False, 0, '']:
        out += [
            T('compute_features_2d', 'progress', v, False, lambda c, v=v: compute_features_2d(np.array([c.x, c.x[::-1]]), c.fs, c.fr, {'threshold_kwargs': dict(c.th)}, n_jobs=1, progress=v)),
            T('compute_features_3d', 'progress', v, False, lambda c, v=v: compute_features_3d(np.array([[c.x, c.x[::-1]]]), c.fs, c.fr, {'threshold_kwargs': dict(c.th)}, axis=(0, 1), n_jobs=1, progress=v)),
            T('BycycleGroup.fit', 'progress', v, False, lambda c, v=v: BycycleGroup(thresholds=dict(c.th)).fit(np.array([c.x, c.x[::-1]]), c.fs, c.fr, n_jobs=1, progress=v)),
        ]
    for bad in [{'monotonicity_threshold': 1.5}, {'min_n_cycles': -1}]:
        out += [T('Bycycle.plot[after rejected fit]', 'thresholds', bad, False, lambda c, bad=bad: _plot_after_rejected_fit(c, thresholds=dict(c.th, **bad)))]
    for kw in [{'burst_method': 'bogus'}, {'center_extrema': 'middle'}]:
        out += [T('Bycycle.plot[after rejected fit]', list(kw)[0], list(kw.values())[0], False, lambda c, kw=kw: _plot_after_rejected_fit(c, thresholds=dict(c.th), **kw))]
    for v, ok in [(None, True), ('tqdm', True), ('bar', False), ('TQDM', False), (True, False), ('tqdm.gui', False), ('tqdm.nbook', False), ('tqdm.Notebook', False), ('tqdm.', False), ('tqdmx', False)]:
        out += [
            T('progress_bar', 'progress', v, ok, lambda c, v=v: list(progress_bar(iter([1, 2]), v, 2))),
            T('compute_features_2d', 'progress', v, ok, lambda c, v=v: compute_features_2d(np.array([c.x, c.x[::-1]]), c.fs, c.fr, {'threshold_kwargs': dict(c.th)}, n_jobs=1, progress=v)),
        ]
    for v in [1, 2, (0, 1), 'x', -1]:
        out += [T('compute_features_2d', 'axis', v, False, lambda c, v=v: compute_features_2d(np.array([c.x, c.x[::-1]]), c.fs, c.fr, {'threshold_kwargs': dict(c.th)}, axis=v, n_jobs=1))]
    for v in [None, 2, (1, 0), 'x', -1]:
        out += [T('compute_features_3d', 'axis', v, False, lambda c, v=v: compute_features_3d(np.array([[c.x, c.x[::-1]]]), c.fs, c.fr, {'threshold_kwargs': dict(c.th)}, axis=v, n_jobs=1))]
    for nd in [2, 3, 0]:
        out += [T('Bycycle.fit', 'sig.ndim', nd, False, lambda c, nd=nd: Bycycle(thresholds=dict(c.th)).fit(c.x.reshape((1,) * (nd - 1) + (-1,)) if nd else np.float64(1.0), c.fs, c.fr))]
    for nd in [1, 4]:
        out += [T('BycycleGroup.fit', 'sigs.ndim', nd, False, lambda c, nd=nd: BycycleGroup(thresholds=dict(c.th)).fit(c.x.reshape((1,) * (nd - 1) + (-1,)), c.fs, c.fr, n_jobs=1))]
    out += [T('Bycycle.plot', 'before-fit', None, False, lambda c: Bycycle(thresholds=dict(c.th)).plot()),
            T('compute_shape_features', 'n_cycles', -1, False, lambda c: compute_shape_features(c.x, c.fs, c.fr, n_cycles=-1)),
            T('compute_band_amp', 'n_cycles', -2, False, lambda c: compute_band_amp(c.df_samples, c.x, c.fs, c.fr, n_cycles=-2))]
    return out


TEMPLATES = templates()


def check_scalar(case, rec):
    t = TEMPLATES[case['template'] % len(TEMPLATES)]
    ctx = Ctx(case['ctx'])
    what = '%s(%s=%r)' % (t['entry'], t['param'], t['value'])
    res = outcome(lambda: t['fn'](ctx))
    judge(t['entry'] + ':' + t['param'], t['valid'], res, what)
    rec.label('entry:' + t['entry'].split('[')[0], 'param:' + t['param'], 'expected:%s' % ('accept' if t['valid'] else 'reject'))
    rec.nontrivial(True)


@st.composite
def strat_scalar(draw, tier):
    band = draw(gen.st_band(wide=False))
    p_lo = band['fs'] / band['f_range'][0]
    n = draw(st.integers(int(12 * p_lo), int(20 * p_lo)))
    f_lo, f_hi = band['f_range']
    sig = {'kind': 'recipe', 'n': n, 'fs': band['fs'],
           'comps': [{'type': 'asym', 'f': draw(gen._f(f_lo, f_hi)), 'ph': draw(gen._f(0, 1)), 'amp': 1.0, 'rdsym': draw(gen._f(0.3, 0.7))},
                     {'type': 'white', 'seed': draw(st.integers(0, 10 ** 6)), 'amp': draw(st.sampled_from([0.05, 0.2]))}], 'post': []}
    ctx = {'fs': band['fs'], 'f_range': band['f_range'], 'sig': sig, 'center': draw(st.sampled_from(['peak', 'trough']))}
    return {'template': draw(st.sampled_from(range(len(TEMPLATES)))), 'ctx': ctx}


def fixed_ctx(k):
    fs = [100, 250, 500, 1000][k % 4]
    f_lo = fs / [12.0, 25.0, 40.0][k % 3]
    n = int(16 * fs / f_lo)
    sig = {'kind': 'recipe', 'n': n, 'fs': fs,
           'comps': [{'type': 'asym', 'f': f_lo * 1.2, 'ph': 0.1 * k, 'amp': 1.0, 'rdsym': 0.4 + 0.05 * (k % 5)},
                     {'type': 'white', 'seed': 77 + k, 'amp': 0.1}], 'post': []}
    return {'fs': fs, 'f_range': [f_lo, f_lo * 1.5], 'sig': sig, 'center': ['peak', 'trough'][k % 2]}


def enum_scalar(tier, shard, nshards):
    nctx = 2 if tier == 'quick' else 12
    i = 0
    for k in range(nctx):
        for t in range(len(TEMPLATES)):
            i += 1
            if i % nshards == shard:
                yield {'template': t, 'ctx': fixed_ctx(k)}


PARTS = [
    Part('grid-check_kwargs_shape', check_grid_fast, enum=enum_fast, shards={'quick': 2, 'thorough': 2}, exhaustive=True),
    Part('grid-end-to-end', check_grid_e2e, enum=enum_e2e, shards={'quick': 14, 'thorough': 16}, exhaustive=True,
         time_cap={'quick': 240, 'thorough': 3000}),
    Part('scalars-all-templates', check_scalar, enum=enum_scalar, shards={'quick': 16, 'thorough': 16}, exhaustive=True),
    Part('scalars', check_scalar, strategy=strat_scalar, budget={'quick': 800, 'thorough': 40000},
         shards={'quick': 16, 'thorough': 16}),
]
