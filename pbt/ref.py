"""Reference models, written from the property statements (not from the code under test).

Trusted base: numpy, scipy, neurodsp.filt.filter_signal / compute_filter_length,
neurodsp.timefrequency.amp_by_time, neurodsp.burst.detect_bursts_dual_threshold.
"""
import itertools
import math

import numpy as np
from scipy.stats import rankdata

from neurodsp.filt import filter_signal
from neurodsp.filt.fir import compute_filter_length
from neurodsp.timefrequency import amp_by_time
from neurodsp.burst import detect_bursts_dual_threshold


# -------------------------------------------------------------------------------------------------
# C02: extrema

def pad_amount(fs, f_range, filter_kwargs, pad=True):
    if not pad:
        return 0
    fk = dict(filter_kwargs or {})
    ns = fk.get('n_seconds')
    nc = fk.get('n_cycles', None if ns is not None else 3)
    try:
        fl = compute_filter_length(fs, 'bandpass', f_range[0], f_range[1], n_cycles=nc, n_seconds=ns)
    except Exception as exc:  # noqa
        from harness import Discard
        raise Discard('trusted neurodsp filter length raises %s' % type(exc).__name__)
    return int(math.ceil(fl / 2))


def halfwaves(sig, fs, f_range, filter_kwargs=None, pad=True):
    """Closed half-waves of the band-passed (padded) signal.

    Returns (off, padded_raw, list of (positive?, w0, w1)) where [w0, w1) is the sample window of
    the half-wave in padded coordinates: from the last sample before the sign change that opens it
    up to (excluding) the last sample before the sign change that closes it.
    """
    fk = dict(filter_kwargs or {})
    off = pad_amount(fs, f_range, fk, pad)
    raw = np.asarray(sig)
    x = np.asarray(sig, dtype=float)
    if off:
        x = np.concatenate([np.zeros(off), x, np.zeros(off)])
    # the raw samples are only ever *ordered*: keep them in their own dtype where the float64 image would merge neighbouring
    # values (64-bit integers beyond 2**53)
    if raw.dtype.kind in 'iu' and raw.dtype.itemsize == 8:
        xr = np.concatenate([np.zeros(off, dtype=raw.dtype), raw, np.zeros(off, dtype=raw.dtype)]) if off else raw
    else:
        xr = x
    try:
        filt = filter_signal(x, fs, 'bandpass', f_range, remove_edges=False, **fk)
    except Exception as exc:  # noqa - the trusted filter design rejects this band / length: outside every property's domain
        from harness import Discard
        raise Discard('trusted neurodsp filter design raises %s for this band/filter length' % type(exc).__name__)
    pos = filt > 0
    runs, i = [], 0
    for val, grp in itertools.groupby(pos.tolist()):
        n = len(list(grp))
        runs.append((bool(val), i, i + n))
        i += n
    waves = []
    for r, (val, a, b) in enumerate(runs):
        if r == 0 or r == len(runs) - 1:
            continue  # not closed by a zero-crossing on both sides
        waves.append((val, a - 1, b - 1))
    return off, xr, waves


def ref_extrema(sig, fs, f_range, filter_kwargs=None, boundary=0, first_extrema='peak', pad=True):
    n = len(sig)
    off, x, waves = halfwaves(sig, fs, f_range, filter_kwargs, pad)
    peaks, troughs = [], []
    for val, w0, w1 in waves:
        w = x[w0:w1]
        if val:
            peaks.append(w0 + int(np.argmax(w)))
        else:
            troughs.append(w0 + int(np.argmin(w)))
    peaks = np.array(peaks, dtype=int) - off
    troughs = np.array(troughs, dtype=int) - off
    peaks = peaks[(peaks > boundary) & (peaks < n - boundary)]
    troughs = troughs[(troughs > boundary) & (troughs < n - boundary)]
    if len(peaks) == 0 or len(troughs) == 0:
        return peaks, troughs
    if first_extrema == 'peak':
        if peaks[0] > troughs[0]:
            troughs = troughs[1:]
        if len(troughs) and peaks[-1] > troughs[-1]:
            peaks = peaks[:-1]
    elif first_extrema == 'trough':
        if troughs[0] > peaks[0]:
            peaks = peaks[1:]
        if len(peaks) and troughs[-1] > peaks[-1]:
            troughs = troughs[:-1]
    return peaks, troughs


# -------------------------------------------------------------------------------------------------
# C03: flank midpoints

def ref_flank(x, a, b, kind):
    seg = x[a:b + 1]
    L = len(seg)
    s, e = seg[0], seg[-1]
    centre = a + L // 2
    if not np.any(seg != 0):
        return centre
    if (kind == 'rise' and s > e) or (kind == 'decay' and s < e):
        return centre
    lvl = (s + e) / 2.0
    if kind == 'rise':
        c = [i for i in range(L - 1) if seg[i] <= lvl and not seg[i + 1] <= lvl]
    else:
        c = [i for i in range(L - 1) if seg[i] > lvl and not seg[i + 1] > lvl]
    if not c:
        return centre
    m = len(c)
    med = c[m // 2] if m % 2 else (c[m // 2 - 1] + c[m // 2]) / 2.0
    return a + int(med)


def ref_midpoints(x, peaks, troughs):
    ev = sorted([(int(p), 'P') for p in peaks] + [(int(t), 'T') for t in troughs])
    rises, decays = [], []
    for (a, ka), (b, kb) in zip(ev[:-1], ev[1:]):
        if ka == kb:
            raise ValueError('extrema do not alternate')
        if ka == 'T':
            rises.append(ref_flank(x, a, b, 'rise'))
        else:
            decays.append(ref_flank(x, a, b, 'decay'))
    return np.array(rises, dtype=int), np.array(decays, dtype=int)


# -------------------------------------------------------------------------------------------------
# table helpers

def names(center):
    """column names of a table with the given centring"""
    side = 'trough' if center == 'peak' else 'peak'
    if center == 'peak':
        zx1, zx2, lzx = 'sample_zerox_rise', 'sample_zerox_decay', 'sample_last_zerox_decay'
    else:
        zx1, zx2, lzx = 'sample_zerox_decay', 'sample_zerox_rise', 'sample_last_zerox_rise'
    return {'center': 'sample_' + center, 'last': 'sample_last_' + side, 'next': 'sample_next_' + side,
            'zx1': zx1, 'zx2': zx2, 'lzx': lzx, 'side': side}


def table_center(df):
    return 'peak' if 'sample_peak' in df.columns else 'trough'


def ref_cycles(sig, fs, f_range, center, find_extrema_kwargs=None):
    """Expected sample columns (dict of int arrays) of the cycle table, from ref_extrema + ref_midpoints.

    Works on the original signal for both centrings: a trough-centred table starts and ends with a
    peak, so first_extrema is 'trough' seen from the negated signal == 'peak' of the negated one.
    """
    fek = dict(find_extrema_kwargs or {})
    fk = fek.get('filter_kwargs')
    if find_extrema_kwargs is None:
        fk = {'n_cycles': 3}
    boundary = fek.get('boundary', 0)
    pad = fek.get('pad', True)
    x = np.asarray(sig, dtype=float)
    xs = x if center == 'peak' else -x
    peaks, troughs = ref_extrema(xs, fs, f_range, fk, boundary, 'peak', pad)
    if len(peaks) < 2 or len(troughs) < 2:
        return None
    rises, decays = ref_midpoints(xs, peaks, troughs)
    # in the (possibly negated) frame: P T P T ... T ; cycles are trough-to-trough around peaks[1:]
    nm = names(center)
    cols = {nm['center']: peaks[1:], nm['last']: troughs[:-1], nm['next']: troughs[1:],
            nm['zx1']: rises, nm['zx2']: decays[1:], nm['lzx']: decays[:-1]}
    return cols


def ratio(a, b):
    lo, hi = (a, b) if a <= b else (b, a)
    with np.errstate(invalid='ignore', divide='ignore'):
        return np.float64(lo) / np.float64(hi)


def flank_sequence(sig, df):
    """Global alternating sequence of extremum samples and flank voltages (peak minus trough)."""
    c = table_center(df)
    nm = names(c)
    last = df[nm['last']].values.astype(int)
    cen = df[nm['center']].values.astype(int)
    nxt = df[nm['next']].values.astype(int)
    ext = [last[0]]
    for i in range(len(df)):
        ext += [cen[i], nxt[i]]
    ext = np.array(ext, dtype=int)
    v = np.asarray(sig, dtype=float)[ext]
    step = np.diff(v)
    # peak-centred: T P T P ... : even steps are rises (+), odd steps decays (peak - trough = -step)
    if c == 'peak':
        F = np.where(np.arange(len(step)) % 2 == 0, step, -step)
    else:
        F = np.where(np.arange(len(step)) % 2 == 0, -step, step)
    return ext, F


def nanmin_or_nan(vals):
    vals = [v for v in vals if not np.isnan(v)]
    return min(vals) if vals else np.nan


def ref_amp_consistency_from_flanks(F, n, direction='both', inf_undefined=False):
    out = np.full(n, np.nan)
    undefined = np.zeros(n, dtype=bool)
    for i in range(1, n - 1):
        cur = ratio(F[2 * i], F[2 * i + 1])
        la = ratio(F[2 * i - 1], F[2 * i])
        nx = ratio(F[2 * i + 1], F[2 * i + 2])
        sel = {'both': [cur, nx, la], 'next': [cur, nx], 'last': [cur, la]}[direction]
        if any(np.isnan(s) or (inf_undefined and np.isinf(s)) for s in sel):
            # 0/0; and, for flank voltages recomputed from the signal, x/0 whose sign is the sign of a zero voltage difference
            # (+0.0 vs -0.0 depends on how the difference was formed): the statement defines no value
            undefined[i] = True
        if all(np.isnan(s) for s in [cur, nx, la]):
            out[i] = np.nan
            continue
        m = nanmin_or_nan(sel)
        out[i] = 0.0 if m < 0 else m
    return out, undefined


def ref_amp_consistency_table(df, direction='both'):
    """From the table's own volt_rise / volt_decay columns and its centring (global flank order)."""
    c = table_center(df)
    r = df['volt_rise'].values.astype(float)
    d = df['volt_decay'].values.astype(float)
    n = len(df)
    F = np.zeros(2 * n)
    if c == 'peak':      # rise_0 decay_0 rise_1 decay_1 ...
        F[0::2], F[1::2] = r, d
    else:                # decay_0 rise_0 decay_1 rise_1 ...
        F[0::2], F[1::2] = d, r
    return ref_amp_consistency_from_flanks(F, n, direction)


def ref_period_consistency(periods, direction='both'):
    p = np.asarray(periods, dtype=float)
    n = len(p)
    out = np.full(n, np.nan)
    for i in range(1, n - 1):
        la = ratio(p[i - 1], p[i])
        nx = ratio(p[i], p[i + 1])
        out[i] = {'both': min(la, nx), 'next': nx, 'last': la}[direction]
    return out


def ref_amp_fraction(volt_amp):
    v = np.asarray(volt_amp, dtype=float)
    return rankdata(v, method='average') / len(v)


def ref_monotonicity(sig, df):
    x = np.asarray(sig, dtype=float)
    c = table_center(df)
    nm = names(c)
    out = np.zeros(len(df))
    for i, (a, m, b) in enumerate(zip(df[nm['last']].values.astype(int), df[nm['center']].values.astype(int),
                                      df[nm['next']].values.astype(int))):
        first, second = x[a:m + 1], x[m:b + 1]
        if c == 'peak':
            up, down = first, second
        else:
            down, up = first, second
        fu = np.mean(np.diff(up) > 0) if len(up) > 1 else np.nan
        fd = np.mean(np.diff(down) < 0) if len(down) > 1 else np.nan
        out[i] = (fu + fd) / 2
    return out


# -------------------------------------------------------------------------------------------------
# run filter and labels

def ref_runs(mask, k):
    out = []
    for val, grp in itertools.groupby([bool(b) for b in mask]):
        n = len(list(grp))
        out.extend([val and n >= k] * n)
    return np.array(out, dtype=bool)


CYC_DEFAULTS = {'amp_fraction_threshold': 0.0, 'amp_consistency_threshold': 0.5,
                'period_consistency_threshold': 0.5, 'monotonicity_threshold': 0.8, 'min_n_cycles': 3}


def ref_labels_cycles(df, thresholds=None):
    th = dict(CYC_DEFAULTS)
    th.update(thresholds or {})
    n = len(df)
    q = np.ones(n, dtype=bool)
    for col in ['amp_fraction', 'amp_consistency', 'period_consistency', 'monotonicity']:
        v = df[col].values.astype(float)
        with np.errstate(invalid='ignore'):
            q &= np.array([(not np.isnan(x)) and x > th[col + '_threshold'] for x in v], dtype=bool)
    if n:
        q[0] = False
        q[-1] = False
    return ref_runs(q, th['min_n_cycles'])


def ref_labels_amp(burst_fraction, thr=1, k=3):
    bf = np.asarray(burst_fraction, dtype=float)
    return ref_runs(np.array([(not np.isnan(x)) and x >= thr for x in bf], dtype=bool), k)


def ref_burst_mask(sig, fs, f_range, amp_threshes=(1, 2), min_n_cycles=3, min_burst_duration=None,
                   filter_kwargs=None):
    fk = dict(filter_kwargs or {})
    if min_burst_duration is not None:
        min_n_cycles = None
    return detect_bursts_dual_threshold(np.asarray(sig, dtype=float), fs, tuple(amp_threshes), tuple(f_range),
                                        min_n_cycles=min_n_cycles, min_burst_duration=min_burst_duration,
                                        **fk).astype(bool)


def ref_band_amp(sig, fs, f_range, n_cycles=3):
    try:
        return _ref_band_amp(sig, fs, f_range, n_cycles)
    except Exception as exc:  # noqa
        from harness import Discard
        raise Discard('trusted neurodsp amp_by_time raises %s' % type(exc).__name__)


def _ref_band_amp(sig, fs, f_range, n_cycles=3):
    return amp_by_time(np.asarray(sig, dtype=float), fs, tuple(f_range), remove_edges=False, n_cycles=n_cycles)


# -------------------------------------------------------------------------------------------------
# comparisons

def same_float(a, b):
    """bit-level equality with NaN == NaN"""
    a = np.asarray(a, dtype=float)
    b = np.asarray(b, dtype=float)
    return a.shape == b.shape and bool(np.all((a == b) | (np.isnan(a) & np.isnan(b))))


def close_float(a, b, rtol=1e-9, atol=0.0):
    a = np.asarray(a, dtype=float)
    b = np.asarray(b, dtype=float)
    if a.shape != b.shape:
        return False
    nan = np.isnan(a) & np.isnan(b)
    with np.errstate(invalid='ignore'):
        ok = np.abs(a - b) <= atol + rtol * np.maximum(np.abs(a), np.abs(b))
        ok |= (a == b)
    return bool(np.all(ok | nan))


def first_diff(a, b):
    a = np.asarray(a)
    b = np.asarray(b)
    if a.shape != b.shape:
        return 'shape %s vs %s' % (a.shape, b.shape)
    try:
        bad = ~((a == b) | (np.isnan(a.astype(float)) & np.isnan(b.astype(float))))
    except (TypeError, ValueError):
        bad = ~(a == b)
    idx = np.flatnonzero(bad)
    if len(idx) == 0:
        return 'equal'
    i = int(idx[0])
    return 'first difference at %d: %r vs %r (%d differ)' % (i, a[i].item() if hasattr(a[i], 'item') else a[i],
                                                              b[i].item() if hasattr(b[i], 'item') else b[i], len(idx))


def frames_equal(a, b):
    """bit-exact DataFrame equality incl. column order and dtypes; returns (ok, why)"""
    if list(a.columns) != list(b.columns):
        return False, 'columns %s vs %s' % (list(a.columns), list(b.columns))
    if len(a) != len(b):
        return False, 'rows %d vs %d' % (len(a), len(b))
    for c in a.columns:
        x, y = a[c].values, b[c].values
        if x.dtype != y.dtype:
            return False, 'dtype of %s: %s vs %s' % (c, x.dtype, y.dtype)
        if x.dtype.kind == 'f':
            if not same_float(x, y):
                return False, 'column %s: %s' % (c, first_diff(x, y))
        elif not np.array_equal(x, y):
            return False, 'column %s: %s' % (c, first_diff(x, y))
    return True, ''


def ref_epochs(flat, L, n_epochs):
    """Partition a flattened table into epochs: row r belongs to epoch k with k*L < closing_r <= (k+1)*L;
    sample columns become relative to the epoch start, the index restarts at 0."""
    nm = names(table_center(flat))
    closing = flat[nm['next']].values.astype(int)
    scols = [c for c in flat.columns if c.startswith('sample_')]
    out = []
    for k in range(n_epochs):
        rows = np.flatnonzero((closing > k * L) & (closing <= (k + 1) * L))
        ep = flat.iloc[rows].reset_index(drop=True).copy()
        for c in scols:
            ep[c] = ep[c] - k * L
        out.append(ep)
    return out
