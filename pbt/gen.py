"""Generators: signal recipes (rendered deterministically) and analysis configurations.

Everything a strategy returns is plain JSON data.  `render_signal(recipe)` turns a recipe into a
float64 array; noise inside a recipe comes from numpy's default_rng seeded with a *drawn* integer,
so a case is a pure function of the Hypothesis draws.
"""
import math

import numpy as np
from hypothesis import strategies as st

FS_CHOICES = [64, 100, 128, 250, 441, 500, 512, 1000, 1024]
GRID8 = [i / 8 for i in range(9)]


# -------------------------------------------------------------------------------------------------
# rendering

def _phase(n, fs, f, ph):
    return (f * np.arange(n) / fs + ph) % 1.0


def _pink(n, chi, seed):
    rng = np.random.default_rng(seed)
    w = rng.standard_normal(n)
    if chi == 0:
        return w
    spec = np.fft.rfft(w)
    fr = np.fft.rfftfreq(n)
    fr[0] = fr[1]
    spec = spec / fr ** (chi / 2.0)
    x = np.fft.irfft(spec, n)
    x = x - x.mean()
    s = x.std()
    return x / s if s > 0 else x


def render_component(c, n, fs):
    t = c['type']
    a = c.get('amp', 1.0)
    if t == 'sine':
        return a * np.sin(2 * np.pi * _phase(n, fs, c['f'], c['ph']))
    if t == 'asym':
        ph = _phase(n, fs, c['f'], c['ph'])
        r = c['rdsym']
        return a * np.where(ph < r, -np.cos(np.pi * ph / r), np.cos(np.pi * (ph - r) / (1 - r)))
    if t == 'saw':
        return a * (2 * _phase(n, fs, c['f'], c['ph']) - 1)
    if t == 'gauss':
        ph = _phase(n, fs, c['f'], c['ph'])
        return a * np.exp(-((ph - 0.5) / c['w']) ** 2)
    if t == 'chirp':
        tt = np.arange(n) / fs
        T = n / fs
        return a * np.sin(2 * np.pi * (c['f0'] * tt + (c['f1'] - c['f0']) * tt ** 2 / (2 * T)) + 2 * np.pi * c['ph'])
    if t == 'bursty':
        x = np.sin(2 * np.pi * _phase(n, fs, c['f'], c['ph']))
        env = np.zeros(n)
        per = fs / c['f']
        pos, on = 0.0, c['first_on']
        for seg in c['segs']:
            nxt = pos + seg * per
            if on:
                env[int(pos):int(nxt)] = 1.0
            pos, on = nxt, not on
            if pos >= n:
                break
        if pos < n and on:
            env[int(pos):] = 1.0
        return a * x * (c.get('floor', 0.0) + (1 - c.get('floor', 0.0)) * env)
    if t == 'pink':
        return a * _pink(n, c['chi'], c['seed'])
    if t == 'white':
        return a * np.random.default_rng(c['seed']).standard_normal(n)
    raise ValueError(t)


def apply_post(x, p):
    t = p['type']
    if t == 'quantise':
        lo, hi = x.min(), x.max()
        if hi <= lo:
            return x
        k = p['levels']
        return np.round((x - lo) / (hi - lo) * (k - 1)) / (k - 1) * (hi - lo) + lo
    if t == 'intquant':
        # integer-valued signal: exact ties and exact half-heights
        lo, hi = x.min(), x.max()
        if hi <= lo:
            return x
        k = p['levels']
        y = np.round((x - lo) / (hi - lo) * (k - 1)) - (k // 2)
        return y.astype(np.int64) if p.get('as_int') else y
    if t == 'clip':
        q = p['q']
        hi = np.quantile(x, 1 - q)
        lo = np.quantile(x, q)
        return np.clip(x, lo, hi)
    if t == 'zero':
        x = x.copy()
        n = len(x)
        for s, l in p['stretches']:
            a = int(s * n)
            x[a:a + max(1, int(l * n))] = 0.0
        return x
    if t == 'hold':
        m = p['m']
        return np.repeat(x[::m], m)[:len(x)]
    if t == 'sensor':                      # a DC-coupled sensor in SI units: tiny rhythm on a much larger (still tiny) baseline
        return x * (10.0 ** p['e']) + p['level']
    if t == 'dc':
        return x + p['offset']
    if t == 'scale':
        return x * (10.0 ** p['e'])
    if t == 'negate':
        return -x
    if t == 'taper':                       # tapered epochs: smooth onset and offset
        n = len(x)
        m = max(2, int(p['frac'] * n / 2))
        w = np.ones(n)
        ramp = 0.5 - 0.5 * np.cos(np.pi * np.arange(m) / m)
        w[:m] = ramp
        w[n - m:] = ramp[::-1]
        return x * w
    raise ValueError(t)


def render_signal(recipe):
    n, fs = recipe['n'], recipe['fs']
    if recipe['kind'] == 'raw':
        vals = np.asarray(recipe['vals'], dtype=float)
        u = recipe['u']
        if recipe['mode'] == 'hold':
            x = np.repeat(vals, u)
        else:
            xp = np.arange(len(vals)) * u
            x = np.interp(np.arange((len(vals) - 1) * u + 1), xp, vals)
        if len(x) < n:
            x = np.concatenate([x, np.zeros(n - len(x))])
        x = x[:n]
    else:
        x = np.zeros(n)
        for c in recipe['comps']:
            x = x + render_component(c, n, fs)
    for p in recipe.get('post', []):
        x = apply_post(x, p)
    if x.dtype.kind == 'i':
        return np.ascontiguousarray(x)           # small integer-valued signal kept as int64 (exact arithmetic, no overflow)
    return np.ascontiguousarray(x, dtype=np.float64)


def signal_classes(recipe):
    """Labels for the generator histogram."""
    out = ['sig:' + recipe['kind']]
    if recipe['kind'] == 'recipe':
        out += ['comp:' + c['type'] for c in recipe['comps']]
    out += ['post:' + p['type'] for p in recipe.get('post', [])]
    if any(p.get('as_int') for p in recipe.get('post', [])):
        out.append('int64-stage')
    return out


# -------------------------------------------------------------------------------------------------
# strategies

def _f(lo, hi):
    """floats in [lo, hi] on a 2^-12 grid of the interval (shrinks towards lo)"""
    lo, hi = float(lo), float(hi)
    return st.integers(0, 4096).map(lambda k: lo + (hi - lo) * k / 4096.0)


@st.composite
def st_band(draw, wide=True):
    """fs, f_range with period at f_lo mostly in [10, 64] samples (a third: 4..9 or 65..260), f_hi < 0.45 fs."""
    fs = draw(st.one_of(st.sampled_from(FS_CHOICES), st.sampled_from(FS_CHOICES),
                        st.integers(500, 20000).map(lambda v: v / 10.0)))
    if wide:
        p_lo = draw(st.one_of(st.integers(10, 64).map(float), _f(10, 64), st.integers(10, 64).map(float), _f(10, 64),
                              st.integers(4, 9).map(float), st.integers(65, 260).map(float)))   # fast rhythms at low rates, slow ones at high rates
    else:
        p_lo = draw(st.one_of(st.integers(10, 64).map(float), _f(10, 64)))
    f_lo = fs / p_lo
    r = draw(st.one_of(st.sampled_from([1.25, 1.5, 2.0, 3.0]), _f(1.25, 3.0)))
    f_hi = min(f_lo * r, 0.45 * fs)
    return {'fs': float(fs) if fs != int(fs) else int(fs), 'f_range': [f_lo, f_hi]}


@st.composite
def st_filter_kwargs(draw, band, allow_none=True):
    """filter_kwargs for find_extrema: n_cycles, n_seconds or nothing."""
    fs, f_lo = band['fs'], band['f_range'][0]
    kind = draw(st.sampled_from((['none'] if allow_none else []) + ['none', 'n_cycles', 'n_cycles', 'n_seconds', 'empty']))
    if kind == 'none':
        return None
    if kind == 'empty':
        return {}
    extras = {}
    if draw(st.integers(0, 5)) == 0:
        # filter_kwargs is documented as keyword arguments for neurodsp's filter_signal: other (default-valued) keywords than the
        # filter length may ride along
        extras = draw(st.sampled_from([{'filter_type': 'fir'}, {'print_transitions': False}, {'plot_properties': False},
                                       {'filter_type': 'fir', 'print_transitions': False}]))
    spell_none = draw(st.integers(0, 7)) == 0       # the unused one of the two length keys spelled out as None (config objects do that)
    if kind == 'n_cycles':
        return dict({'n_cycles': draw(st.sampled_from([0.5, 1, 1, 1.25, 2, 3, 3, 4, 5, 7]))}, **dict(extras, **({'n_seconds': None} if spell_none else {})))      # very short (even fractional) kernels included
    m = draw(st.one_of(st.sampled_from([1.0, 2.0, 3.0, 4.5]), _f(1.0, 6.0)))
    return dict({'n_seconds': m / f_lo}, **dict(extras, **({'n_cycles': None} if spell_none else {})))


def filt_len_of(band, fk):
    fs, f_lo = band['fs'], band['f_range'][0]
    fk = fk or {}
    if fk.get('n_seconds') is not None:
        L = fs * fk['n_seconds']
    else:
        L = fs * fk.get('n_cycles', 3) / f_lo
    L = int(math.ceil(L))
    return L + 1 if L % 2 == 0 else L


@st.composite
def st_component(draw, band, n):
    fs = band['fs']
    f_lo, f_hi = band['f_range']
    fc = draw(st.one_of(_f(f_lo, f_hi), _f(f_lo, f_hi), st.sampled_from([f_lo, f_hi, (f_lo + f_hi) / 2]),
                        _f(f_lo / 3, min(f_hi * 2, 0.49 * fs))))
    t = draw(st.sampled_from(['sine', 'sine', 'asym', 'asym', 'saw', 'gauss', 'chirp', 'bursty', 'bursty',
                              'pink', 'pink', 'white']))
    amp = draw(st.sampled_from([1.0, 1.0, 0.5, 0.25, 2.0]))
    ph = draw(_f(0, 1))
    if t == 'sine':
        return {'type': t, 'f': fc, 'ph': ph, 'amp': amp}
    if t == 'asym':
        return {'type': t, 'f': fc, 'ph': ph, 'amp': amp, 'rdsym': draw(_f(0.15, 0.85))}
    if t == 'saw':
        return {'type': t, 'f': fc, 'ph': ph, 'amp': amp}
    if t == 'gauss':
        return {'type': t, 'f': fc, 'ph': ph, 'amp': amp, 'w': draw(_f(0.08, 0.4))}
    if t == 'chirp':
        return {'type': t, 'f0': draw(_f(f_lo, f_hi)), 'f1': draw(_f(f_lo, f_hi)), 'ph': ph, 'amp': amp}
    if t == 'bursty':
        return {'type': t, 'f': fc, 'ph': ph, 'amp': amp, 'first_on': draw(st.booleans()),
                'segs': draw(st.lists(st.one_of(st.integers(1, 8).map(float), _f(0.5, 8)), min_size=1, max_size=8)),
                'floor': draw(st.sampled_from([0.0, 0.0, 0.1, 0.3]))}
    if t == 'pink':
        return {'type': t, 'chi': draw(st.sampled_from([0.0, 1.0, 2.0, 3.0, 1.5])), 'seed': draw(st.integers(0, 2 ** 31 - 1)),
                'amp': amp}
    return {'type': 'white', 'seed': draw(st.integers(0, 2 ** 31 - 1)), 'amp': amp * draw(st.sampled_from([0.05, 0.2, 1.0]))}


@st.composite
def st_post(draw):
    t = draw(st.sampled_from(['quantise', 'intquant', 'clip', 'zero', 'hold', 'dc', 'scale', 'scale', 'negate', 'taper', 'sensor']))
    if t == 'sensor':
        e = draw(st.sampled_from([-13, -12, -9, -6, 3]))
        return {'type': t, 'e': e, 'level': draw(st.sampled_from([60.0, -250.0, 3000.0])) * 10.0 ** e * draw(st.sampled_from([10.0, 1000.0]))}
    if t == 'taper':
        return {'type': t, 'frac': draw(st.sampled_from([0.2, 0.5, 1.0]))}
    if t == 'quantise':
        return {'type': t, 'levels': draw(st.integers(2, 32))}
    if t == 'intquant':
        return {'type': t, 'levels': draw(st.integers(2, 32)), 'as_int': draw(st.booleans())}
    if t == 'clip':
        return {'type': t, 'q': draw(st.sampled_from([0.02, 0.1, 0.25, 0.4]))}
    if t == 'zero':
        return {'type': t, 'stretches': draw(st.lists(st.tuples(_f(0, 0.95), _f(0.01, 0.3)).map(list), min_size=1, max_size=3))}
    if t == 'hold':
        return {'type': t, 'm': draw(st.integers(2, 6))}
    if t == 'dc':
        return {'type': t, 'offset': draw(st.sampled_from([-100.0, -1.0, 0.5, 3.0, 1000.0, 1.0e6, -3.0e7]))}
    if t == 'scale':
        # six decades around 1, and now and then data kept in SI units (tesla, volts) or raw ADC counts with a large gain:
        # nothing in the statements depends on the unit, absolute tolerances in the code would
        return {'type': t, 'e': draw(st.one_of(st.integers(-3, 3), st.integers(-3, 3), st.sampled_from([-15, -13, -10, -8, -6, 6, 9, 12])))}
    return {'type': 'negate'}


@st.composite
def st_signal(draw, band, n, tie_rich=False, bursty=False):
    fs = band['fs']
    fam = draw(st.sampled_from(['recipe', 'recipe', 'recipe', 'raw'] if not tie_rich else ['recipe', 'raw', 'raw']))
    if fam == 'raw':
        p_c = fs / ((band['f_range'][0] + band['f_range'][1]) / 2)
        u = max(1, int(draw(st.sampled_from([0.25, 0.5, 0.5, 1.0])) * p_c))
        m = int(math.ceil(n / u)) + 1
        vals = draw(st.lists(st.integers(-4, 4), min_size=m, max_size=m))
        return {'kind': 'raw', 'n': n, 'fs': fs, 'vals': vals, 'u': u, 'mode': draw(st.sampled_from(['hold', 'linear']))}
    ncomp = draw(st.sampled_from([1, 1, 2, 2, 3]))
    comps = [draw(st_component(band, n)) for _ in range(ncomp)]
    if bursty and not any(c['type'] == 'bursty' for c in comps):
        f_lo, f_hi = band['f_range']
        comps[0] = {'type': 'bursty', 'f': draw(_f(f_lo, f_hi)), 'ph': draw(_f(0, 1)), 'amp': 1.0,
                    'first_on': draw(st.booleans()),
                    'segs': draw(st.lists(st.integers(2, 8).map(float), min_size=2, max_size=8)), 'floor': 0.0}
    post = draw(st.lists(st_post(), min_size=0, max_size=2 if not tie_rich else 3))
    if tie_rich and not any(p['type'] in ('quantise', 'intquant', 'clip', 'hold') for p in post):
        post.append({'type': draw(st.sampled_from(['quantise', 'intquant'])), 'levels': draw(st.integers(3, 12))})
    return {'kind': 'recipe', 'n': n, 'fs': fs, 'comps': comps, 'post': post}


@st.composite
def st_variant(draw):
    """How the SAME argument values are handed over: the result must not depend on it."""
    if draw(st.integers(0, 2)) > 0:
        return None
    return {'sig_view': draw(st.sampled_from(['plain', 'readonly', 'strided', 'plain', 'byteswapped'])),
            'f_range': draw(st.sampled_from(['tuple', 'list'])),
            'np_scalars': draw(st.booleans()), 'reverse_keys': draw(st.booleans())}


def st_threshold():
    return st.one_of(st.sampled_from(GRID8), st.sampled_from([0.0, 0.0, 0.25, 0.5]), _f(0, 1))


@st.composite
def st_thresholds_cycles(draw, allow_none=True):
    if allow_none and draw(st.integers(0, 9)) == 0:
        return None
    th = {}
    for k in ['amp_fraction_threshold', 'amp_consistency_threshold', 'period_consistency_threshold',
              'monotonicity_threshold']:
        if draw(st.integers(0, 4)) > 0:
            th[k] = draw(st_threshold())
    if draw(st.integers(0, 3)) > 0:
        th['min_n_cycles'] = draw(st.integers(0, 6))
    return th


@st.composite
def st_amp_settings(draw, band):
    """(burst_kwargs, thresholds) for burst_method='amp' with the four min_n_cycles routings."""
    bk = {}
    if draw(st.booleans()):
        bk['amp_threshes'] = draw(st.one_of(
            st.sampled_from([[1, 2], [0.5, 1], [1, 1], [0.8, 1.5], [0, 1], [1.5, 3], [0.25, 0.5]]),
            st.tuples(_f(0, 2), _f(0, 2)).map(lambda t: [min(t), max(t)])))
    routing = draw(st.sampled_from(['neither', 'thresholds', 'burst', 'both']))
    th = {}
    if draw(st.integers(0, 3)) > 0:
        th['burst_fraction_threshold'] = draw(st.one_of(st.sampled_from([1, 1.0, 0.5, 0.0, 0.75, 0.9]), _f(0, 1)))
    if routing in ('thresholds', 'both'):
        th['min_n_cycles'] = draw(st.integers(0, 5))
    if routing in ('burst', 'both'):
        bk['min_n_cycles'] = draw(st.integers(0, 5))
    if draw(st.integers(0, 7)) == 0:
        bk['min_burst_duration'] = draw(st.one_of(_f(0.5, 4.0), _f(0.5, 4.0), st.sampled_from([0.0, 0.0, 1.0]))) / band['f_range'][0]      # 0 s: "no minimum length", explicitly
    if draw(st.integers(0, 3)) == 0:
        # forwarded to the dual-threshold detector: filter length, but also its other documented keywords
        bk['filter_kwargs'] = draw(st.sampled_from([{'n_cycles': 2}, {'n_cycles': 3}, {'n_cycles': 4}, {'n_cycles': 4}, {'magnitude_type': 'power'},
                                                    {'avg_type': 'mean'}, {'filter_type': 'fir'}, {'n_cycles': 2, 'magnitude_type': 'power'}]))
    use_bk = bool(bk) or draw(st.booleans())
    use_th = bool(th) or draw(st.integers(0, 4)) > 0
    if draw(st.integers(0, 11)) == 0:
        # one and the same settings dict used for both option arguments (only min_n_cycles is a key of both)
        k = draw(st.integers(0, 5))
        return {'min_n_cycles': k}, {'min_n_cycles': k}, 'same-object'
    return (bk if use_bk else None), (th if use_th else None), routing


@st.composite
def st_analysis_case(draw, methods=('cycles', 'amp'), centers=('peak', 'trough'), tie_rich=False,
                     bursty=False, max_n=3000, min_periods=8, thresholds=True, boundary=True):
    band = draw(st_band())
    fs, (f_lo, f_hi) = band['fs'], band['f_range']
    fk = draw(st_filter_kwargs(band))
    method = draw(st.sampled_from(list(methods)))
    center = draw(st.sampled_from(list(centers)))
    bk = th = None
    routing = None
    one_object = False
    amp_fk = None
    if method == 'amp':
        bk, th, routing = draw(st_amp_settings(band))
        amp_fk = (bk or {}).get('filter_kwargs')
        one_object = routing == 'same-object'
        if bk is not None and draw(st.integers(0, 5)) == 0:
            # an options dict carried over from another recording: its own fs / f_range entries (documented keys of
            # compute_burst_features) are replaced by the arguments of the call
            bk['fs'] = fs * 2
            bk['f_range'] = [f_lo * 0.5, f_hi * 0.5]
    elif thresholds:
        th = draw(st_thresholds_cycles())
        if draw(st.integers(0, 3)) == 0:
            # documented as used only when burst_method='amp': must not influence a 'cycles' analysis
            bk = {'min_n_cycles': draw(st.integers(0, 6))}
            if draw(st.booleans()):
                bk['amp_threshes'] = [1, 2]
    p_lo = fs / f_lo
    need = max(filt_len_of(band, fk), filt_len_of(band, None), filt_len_of(band, amp_fk)) + 8
    n_min = int(max(need, min_periods * p_lo))
    n_max = int(min(max(max_n, n_min + 64), max(n_min + 64, 45 * p_lo)))
    n = draw(st.integers(n_min, n_max))
    if draw(st.integers(0, 7)) == 0:
        # shortest recordings the filters accept: a handful of oscillations, tables of one to three rows
        n = draw(st.integers(max(need, int(4 * p_lo)), max(need, int(4 * p_lo)) + int(3 * p_lo)))
        if draw(st.integers(0, 2)) > 0:
            n = need - 8 + draw(st.sampled_from([1, 1, 1, 2, 3]))      # one to three samples longer than the longest filter involved
    fek = None
    bnd = None
    if boundary:
        bnd = draw(st.sampled_from([None, None, 0, 1, 2, 'period', 'fifth', 'small']))
        if bnd == 'period':
            bnd = int(round(p_lo))
        elif bnd == 'fifth':
            bnd = n // 5
        elif bnd == 'small':
            bnd = draw(st.integers(3, 12))
    if fk is not None or bnd is not None or draw(st.integers(0, 3)) == 0:
        fek = {}
        if fk is not None:
            fek['filter_kwargs'] = fk
        if bnd is not None:
            fek['boundary'] = bnd
        if draw(st.integers(0, 5)) == 0:
            fek['pad'] = False               # documented option of find_extrema: no zero padding before filtering
    sig = draw(st_signal(band, n, tie_rich=tie_rich, bursty=bursty))
    return {'fs': fs, 'f_range': [f_lo, f_hi], 'sig': sig, 'center': center, 'method': method,
            'fek': fek, 'th': th, 'bk': bk, 'routing': routing, 'one_options_object': one_object,
            'return_samples': draw(st.sampled_from([True, True, False])),
            'variant': draw(st_variant())}


# -------------------------------------------------------------------------------------------------
# turning a case into call arguments

def copy_json(o):
    import json
    return json.loads(json.dumps(o)) if o is not None else None


def _tuplify_bk(bk):
    if bk is None:
        return None
    bk = copy_json(bk)
    if 'amp_threshes' in bk:
        bk['amp_threshes'] = tuple(bk['amp_threshes'])
    return bk


def _np_scalars(d):
    import numpy as np
    if not isinstance(d, dict):
        return d
    out = {}
    for k, v in d.items():
        if isinstance(v, dict):
            out[k] = _np_scalars(v)
        elif isinstance(v, bool):
            out[k] = np.bool_(v)
        elif isinstance(v, int):
            out[k] = np.int64(v)
        elif isinstance(v, float):
            out[k] = np.float64(v)
        else:
            out[k] = v
    return out


def _reverse_keys(d):
    if not isinstance(d, dict):
        return d
    return {k: _reverse_keys(d[k]) for k in reversed(list(d))}


def cf_kwargs(case, **override):
    """Fresh keyword arguments for compute_features (in the case's argument-object variant, if any)."""
    kw = dict(center_extrema=case['center'], burst_method=case['method'],
              burst_kwargs=_tuplify_bk(case.get('bk')), threshold_kwargs=copy_json(case.get('th')),
              find_extrema_kwargs=copy_json(case.get('fek')), return_samples=case.get('return_samples', True))
    v = case.get('variant')
    if v:
        for key in ('burst_kwargs', 'threshold_kwargs', 'find_extrema_kwargs'):
            if v.get('np_scalars'):
                kw[key] = _np_scalars(kw[key])
            if v.get('reverse_keys'):
                kw[key] = _reverse_keys(kw[key])
    if case.get('one_options_object') and kw['burst_kwargs'] is not None and kw['burst_kwargs'] == kw['threshold_kwargs']:
        kw['threshold_kwargs'] = kw['burst_kwargs']       # the caller keeps ONE dict and passes it for both option arguments
    kw.update(override)
    return kw


def call_args(case, x):
    """(signal object, fs, f_range) as the case's variant hands them over; values are always those of the case"""
    import numpy as np
    v = case.get('variant') or {}
    sig = x.copy()
    if v.get('sig_view') == 'readonly':
        sig.setflags(write=False)
    elif v.get('sig_view') == 'strided':
        buf = np.zeros(2 * len(x), dtype=x.dtype)
        buf[::2] = x
        sig = buf[::2]
    elif v.get('sig_view') == 'byteswapped' and x.dtype.kind == 'f':
        # the same values in non-native byte order, as np.fromfile / np.memmap give for big-endian data files
        sig = x.astype(x.dtype.newbyteorder('>'))
    fs = case['fs']
    if v.get('np_scalars'):
        fs = np.float64(fs)
    fr = case['f_range']
    fr = {'list': list(fr), 'array': np.array(fr, dtype=float)}.get(v.get('f_range'), tuple(fr))
    return sig, fs, fr


def case_labels(case):
    out = signal_classes(case['sig'])
    out += ['center:' + case['center'], 'method:' + case['method'],
            'samples:%s' % case.get('return_samples', True)]
    fek = case.get('fek') or {}
    fk = fek.get('filter_kwargs')
    out.append('filt:' + ('default' if not fk else ('n_seconds' if 'n_seconds' in fk else 'n_cycles')))
    out.append('boundary:' + ('absent' if 'boundary' not in fek else ('0' if fek['boundary'] == 0 else '>0')))
    if fek.get('pad') is False:
        out.append('pad:False')
    if case.get('routing'):
        out.append('routing:' + case['routing'])
    if case['method'] == 'cycles':
        out.append('th:none' if case.get('th') is None else 'th:dict')
    if case.get('variant'):
        out.append('arg-variant')
    return out


def copy_json_kwargs(kw):
    """deep copy of a compute_features kwargs dict that keeps tuples (amp_threshes)"""
    import copy
    return copy.deepcopy(kw)


def case_key_json(o):
    import json
    return json.dumps(o, sort_keys=True)
