"""A clean-state oracle for history independence.

`Zygote` forks a server process *before the shard has executed any analysis code*. Every request is executed in a
grandchild forked from that untouched server, so the result is what the call returns in a process that has no call
history at all: module-level caches, memoisation, polluted defaults or class attributes of the code under test cannot
reach it. An in-process differential is blind to such state because reference and subject are poisoned alike.
"""
import os
import pickle
import signal
import struct
import time


def _read_exact(fd, n):
    buf = b''
    while len(buf) < n:
        chunk = os.read(fd, n - len(buf))
        if not chunk:
            raise EOFError
        buf += chunk
    return buf


def _send(fd, obj):
    data = pickle.dumps(obj, protocol=pickle.HIGHEST_PROTOCOL)
    os.write(fd, struct.pack('<Q', len(data)))
    view = memoryview(data)
    while view:
        k = os.write(fd, view[:1 << 16])
        view = view[k:]


def _recv(fd):
    n = struct.unpack('<Q', _read_exact(fd, 8))[0]
    return pickle.loads(_read_exact(fd, n))


class Zygote:
    def __init__(self, call_timeout=100):
        self.alive = False
        req_r, req_w = os.pipe()
        resp_r, resp_w = os.pipe()
        pid = os.fork()
        if pid == 0:                               # the server: never runs analysis code itself
            try:
                os.close(req_w)
                os.close(resp_r)
                signal.signal(signal.SIGALRM, signal.SIG_DFL)
                while True:
                    try:
                        fn, args, kwargs = _recv(req_r)
                    except EOFError:
                        break
                    child = os.fork()
                    if child == 0:
                        code = 1
                        try:
                            import warnings
                            with warnings.catch_warnings():
                                warnings.simplefilter('ignore')
                                try:
                                    payload = ('ok', fn(*args, **kwargs))
                                except Exception as exc:  # noqa
                                    payload = ('raises', type(exc).__name__, str(exc)[:160])
                            _send(resp_w, payload)
                            code = 0
                        finally:
                            os._exit(code)
                    t0 = time.time()
                    status = None
                    while time.time() - t0 < call_timeout:
                        done, status = os.waitpid(child, os.WNOHANG)
                        if done:
                            break
                        time.sleep(0.002)
                    else:
                        os.kill(child, signal.SIGKILL)
                        os.waitpid(child, 0)
                        _send(resp_w, ('timeout',))
                        continue
                    if status != 0:
                        _send(resp_w, ('crashed', status))
            finally:
                os._exit(0)
        os.close(req_r)
        os.close(resp_w)
        self.pid, self.req_w, self.resp_r = pid, req_w, resp_r
        self.alive = True

    def call(self, fn, args=(), kwargs=None):
        """-> ('ok', value) | ('raises', type name, message) | ('timeout',) | ('crashed', status) | ('lost',)"""
        if not self.alive:
            return ('lost',)
        try:
            _send(self.req_w, (fn, tuple(args), dict(kwargs or {})))
            return _recv(self.resp_r)
        except Exception:  # noqa
            self.alive = False
            return ('lost',)

    def close(self):
        if self.alive:
            self.alive = False
            try:
                os.close(self.req_w)
                os.close(self.resp_r)
                os.waitpid(self.pid, 0)
            except OSError:
                pass
