#!/venv/bin/python
"""validate_seed.py <src dir with patch.diff demo.py meta.json> <seed-name> <Cxx[,Cyy...]> [--keep]

Confirms in a scratch worktree of /repo HEAD that (1) demo passes without the patch, (2) fails with it, (3) the repository's
stable tests still pass with it; then runs the named quick checks against the patched worktree and records everything in
/verif/seeded/<seed-name>/ (patch.diff, demo.py, meta.json). Nothing is ever applied to /repo itself.
"""
import json, os, shutil, subprocess, sys, tempfile, time

src, name, props = sys.argv[1], sys.argv[2], sys.argv[3].split(',')
PY = '/venv/bin/python'
base = json.load(open('/root/.vp/BASELINE.json'))
stable = set(base['stable_pass'])


def sh(cmd, cwd=None, env=None, timeout=1800):
    p = subprocess.run(cmd, cwd=cwd, env=env, shell=isinstance(cmd, str), stdout=subprocess.PIPE, stderr=subprocess.STDOUT, timeout=timeout)
    return p.returncode, p.stdout.decode(errors='replace')


wt = tempfile.mkdtemp(prefix='bycycle-seedval-', dir='/tmp')
os.rmdir(wt)
rc, out = sh(['git', '-C', '/repo', 'worktree', 'add', '-q', '--detach', wt, 'HEAD'])
assert rc == 0, out
res = {'name': name, 'head': sh(['git', '-C', '/repo', 'rev-parse', '--short', 'HEAD'])[1].strip()}
try:
    env = dict(os.environ, PYTHONPATH=wt, MPLBACKEND='Agg')
    demo = os.path.abspath(os.path.join(src, 'demo.py'))
    rc0, out0 = sh([PY, demo], cwd=wt, env=env)
    res['demo_without'] = rc0
    rc, out = sh(['git', '-C', wt, 'apply', os.path.abspath(os.path.join(src, 'patch.diff'))])
    if rc != 0:
        res['error'] = 'patch does not apply: ' + out[-300:]
        print(json.dumps(res)); sys.exit(1)
    rc1, out1 = sh([PY, demo], cwd=wt, env=env)
    res['demo_with'] = rc1
    res['demo_with_tail'] = out1.strip().splitlines()[-3:]
    junit = os.path.join(wt, 'junit.xml')
    for attempt in range(4):
        # the repository's pool tests occasionally dead-lock in CPython's Pool teardown (§6.3 of DESIGN.md): bounded, retried
        try:
            if os.path.exists(junit):
                os.remove(junit)
            p = subprocess.Popen([PY, '-m', 'pytest', '-q', '-p', 'no:cacheprovider', '--timeout=900', '--continue-on-collection-errors',
                                  '--junitxml=' + junit], cwd=wt, env=dict(os.environ, MPLBACKEND='Agg'), stdout=subprocess.DEVNULL,
                                 stderr=subprocess.DEVNULL, start_new_session=True)
            p.wait(timeout=300)
            break
        except subprocess.TimeoutExpired:
            import signal
            os.killpg(p.pid, signal.SIGKILL)
            p.wait()
    import xml.etree.ElementTree as ET
    passed = set()
    for tc in ET.parse(junit).getroot().iter('testcase'):
        if not any(ch.tag in ('failure', 'error', 'skipped') for ch in tc):
            passed.add('%s::%s' % (tc.get('classname'), tc.get('name')))
    res['stable_tests_broken'] = sorted(stable - passed)
    res['tests_passed_with_patch'] = len(passed)
    os.remove(junit)
    det = {}
    for p in props:
        t0 = time.time()
        rc, out = sh([PY, '/verif/pbt/run.py', p, '--tier', 'quick', '--no-evidence'],
                     env=dict(os.environ, BYCYCLE_VERIF_REPO=wt, VERIF_REPLAY_DIR='/verif/.work/replays'))
        clauses = sorted(set(l.split('violated clause ')[1].strip() for l in out.splitlines() if 'violated clause' in l))
        det[p] = {'exit': rc, 'clauses': clauses[:6], 'seconds': round(time.time() - t0, 1)}
    res['detection'] = det
finally:
    sh(['git', '-C', '/repo', 'worktree', 'remove', '--force', wt]); shutil.rmtree(wt, ignore_errors=True)
    sh(['git', '-C', '/repo', 'worktree', 'prune'])
valid = res.get('demo_without') == 0 and res.get('demo_with', 0) != 0 and not res.get('stable_tests_broken')
res['valid'] = valid
print(json.dumps(res, indent=1))
if valid:
    dst = os.path.join('/verif/seeded', name)
    os.makedirs(dst, exist_ok=True)
    if os.path.abspath(src) != os.path.abspath(dst):
        shutil.copy(os.path.join(src, 'patch.diff'), dst); shutil.copy(os.path.join(src, 'demo.py'), dst)
    meta = json.load(open(os.path.join(src, 'meta.json')))
    meta.update({'confirmed': {'repo_head': res['head'], 'demo_exit_without_patch': res['demo_without'],
                               'demo_exit_with_patch': res['demo_with'], 'stable_tests_broken': [],
                               'tests_passed_with_patch': res['tests_passed_with_patch'],
                               'ran': 'scratch git worktree of /repo HEAD: demo.py without patch, git apply patch.diff, demo.py, full pytest suite, quick checks with BYCYCLE_VERIF_REPO=<worktree>'},
                 'detected_by_quick_checks': res['detection']})
    json.dump(meta, open(os.path.join(dst, 'meta.json'), 'w'), indent=1)
