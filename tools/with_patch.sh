#!/bin/bash
# usage: with_patch.sh <patch.diff> <command...>
# Applies the patch to a scratch git worktree of /repo (never to /repo itself), runs the command with
# BYCYCLE_VERIF_REPO pointing at it, removes the worktree.  Exit status = the command's.
set -u
patch=$(readlink -f "$1"); shift
wt=$(mktemp -d /tmp/bycycle-wt-XXXXXX)
rmdir "$wt"
git -C /repo worktree add -q --detach "$wt" HEAD || exit 2
cleanup() { git -C /repo worktree remove --force "$wt" >/dev/null 2>&1; rm -rf "$wt"; git -C /repo worktree prune; }
trap cleanup EXIT
if ! git -C "$wt" apply "$patch"; then echo "PATCH-DOES-NOT-APPLY $patch"; exit 3; fi
BYCYCLE_VERIF_REPO="$wt" "$@"
