#!/venv/bin/python
"""Regenerates MANIFEST.json from the table below (single source of truth for the registered checks)."""
import json, os
HERE = os.path.dirname(os.path.abspath(__file__))
VERIF = os.path.dirname(HERE)

import sys, glob, importlib, warnings
warnings.simplefilter('ignore')
sys.path.insert(0, os.path.join(VERIF, 'pbt')); sys.path.insert(0, '/repo')
os.environ.setdefault('MPLBACKEND', 'Agg')
CHECKS = {}
for f in sorted(glob.glob(os.path.join(VERIF, 'pbt', 'props', 'c[0-9][0-9].py'))):
    m = importlib.import_module('props.' + os.path.basename(f)[:-3])
    if getattr(m, 'REGISTER', False):
        CHECKS[m.ID] = (m.TECHNIQUE, m.LEVEL_TEXT, '; '.join(m.ASSUMPTIONS) + ' Trusted: ' + ', '.join(m.TRUSTED), 'DESIGN.md section 5 ' + m.ID)
NOT_APPLICABLE = {}

def main():
    ids = [json.loads(l)['id'] for l in open(os.path.join(VERIF, 'properties.jsonl'))]
    for i in ids:
        if i not in CHECKS and i not in NOT_APPLICABLE:
            NOT_APPLICABLE[i] = 'not claimed yet: the generated-input check for this property is still under construction (see DESIGN.md section 5)'
    checks = []
    for pid in sorted(CHECKS):
        tech, text, note, ref = CHECKS[pid]
        checks.append({
            'property_id': pid,
            'quick_cmd': '/venv/bin/python pbt/run.py %s --tier quick' % pid,
            'thorough_cmd': '/venv/bin/python pbt/run.py %s --tier thorough' % pid,
            'evidence_file': 'evidence/%s.json' % pid,
            'replay_cmd_template': '/venv/bin/python pbt/run.py %s --replay {path}' % pid,
            'engine': 'pbt',
            'level_claimed': {'category': 'exploration', 'text': text, 'design_ref': ref},
            'level_note': note,
            'technique': tech,
        })
    man = {
        'version': 1,
        'setup_cmd': '(/venv/bin/python -c "import hypothesis" 2>/dev/null || /venv/bin/pip install --no-index --find-links /opt/veriftools/wheels hypothesis) && (PYTHONPATH=/verif/.deps /venv/bin/python -c "import atheris" 2>/dev/null || /venv/bin/pip install -q --no-index --find-links /opt/veriftools/wheels --target /verif/.deps atheris || true)',
        'hooks': {
            'guard': 'BYCYCLE_VERIF',
            'enable': 'no source hooks exist: checks import /repo\'s working tree directly (BYCYCLE_VERIF_REPO overrides the path); BYCYCLE_VERIF=1 is exported by the runner but nothing in /repo reads it',
            'baseline_off_cmd': 'cd /repo && env -u BYCYCLE_VERIF /venv/bin/python -m pytest -ra -q -p no:cacheprovider --timeout=900 --continue-on-collection-errors',
            'source_commits': [],
            'add_only': True,
        },
        'engines': [{'name': 'pbt', 'path': 'pbt/run.py', 'serves_properties': sorted(CHECKS),
                     'kind_free_text': 'Hypothesis property-based testing + exhaustive small-domain enumeration + atheris/libFuzzer coverage-guided parts (thorough tier of C03, C08, C17), sharded over 16 processes, bucketed failures, bounded shrinking, JSON replay files'}],
        'checks': checks,
        'not_applicable': [{'property_id': k, 'reason': v} for k, v in sorted(NOT_APPLICABLE.items())],
        'notes': 'All checks: /venv/bin/python pbt/run.py <id> [--tier quick|thorough] [--replay file]; exit 0 ok, 1 VIOLATION, 2 harness error. Known findings: known_findings.json.',
    }
    with open(os.path.join(VERIF, 'MANIFEST.json'), 'w') as fh:
        json.dump(man, fh, indent=1)
    print('wrote MANIFEST.json with %d checks' % len(checks))

if __name__ == '__main__':
    main()
