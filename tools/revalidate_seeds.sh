#!/bin/bash
# re-confirm every kept seeded change against the current /repo HEAD and re-run its detecting checks
cd /verif
for d in seeded/*/; do
  name=$(basename $d)
  checks=$(/venv/bin/python -c "import json; m=json.load(open('$d/meta.json')); print(','.join(sorted(m.get('detected_by_quick_checks',{}).keys()) or [m['property']]))" 2>/dev/null)
  tools/validate_seed.py $d $name $checks 2>&1 | grep -v conda | /venv/bin/python -c "
import sys,json
try:
    d=json.load(sys.stdin); print(d['name'], 'valid', d.get('valid'), 'demo', d.get('demo_without'), d.get('demo_with'), {k:(v['exit'], v['clauses'][:1]) for k,v in d.get('detection',{}).items()}, d.get('error',''))
except Exception as e: print('$name ERROR', e)
" 2>&1 | grep -v conda
done
