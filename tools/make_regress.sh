#!/bin/bash
# make_regress.sh <patch> <Cxx> <name>: run the quick check against the patched scratch worktree, keep one shrunk replay per
# violated clause as regress/<Cxx>-<name>-<k>.json (only those that pass on the unpatched tree).
patch=$1; prop=$2; name=$3
d=/verif/.work/mkreg-$$; mkdir -p $d
VERIF_REPLAY_DIR=$d /verif/tools/with_patch.sh $patch /venv/bin/python /verif/pbt/run.py $prop --no-evidence > $d/log 2>&1
k=0
for f in $d/*.json; do
  [ -e "$f" ] || continue
  if /venv/bin/python /verif/pbt/run.py $prop --replay $f >/dev/null 2>&1; then
    k=$((k+1)); [ $k -le 2 ] && cp $f /verif/regress/$prop-$name-$k.json && echo "kept $f -> regress/$prop-$name-$k.json: $(/venv/bin/python -c "import json,sys;print(json.load(open('$f'))['clause'])" 2>/dev/null)"
  fi
done
rm -rf $d
