#!/bin/bash
# stability.sh [tier] [seeds...]: run every registered check at the given seeds; print one line per (check, seed)
tier=${1:-quick}; shift
seeds=${@:-0 1 2 7 12345}
cd "$(dirname "$0")/.."
for s in $seeds; do
  for c in $(/venv/bin/python -c "import json; print(' '.join(x['property_id'] for x in json.load(open('MANIFEST.json'))['checks']))" 2>/dev/null); do
    t0=$(date +%s)
    out=$(VERIF_SEED=$s PYTHONHASHSEED=0 /venv/bin/python pbt/run.py $c --tier $tier --no-evidence 2>&1); rc=$?
    echo "seed=$s $c rc=$rc t=$(( $(date +%s) - t0 ))s $(echo "$out" | grep -c VIOLATION) violations $(echo "$out" | grep "violated clause\|HARNESS" | head -3 | tr '\n' ';' | cut -c1-300)"
  done
done
