#!/bin/bash
# usage: run_mutants.sh <Cxx> <mutant-name-glob> [extra run.py args]   (quick tier, no evidence written)
prop=$1; glob=$2; shift 2
mkdir -p /verif/.work
for m in /verif/mutants/$glob.diff; do
  name=$(basename $m .diff)
  start=$(date +%s)
  out=$(VERIF_REPLAY_DIR=/verif/.work/replays /verif/tools/with_patch.sh $m /venv/bin/python /verif/pbt/run.py $prop --no-evidence "$@" 2>&1)
  rc=$?
  clauses=$(echo "$out" | grep "violated clause" | sed 's/.*violated clause //' | sort -u | tr '\n' ';' | cut -c1-300)
  echo "$name rc=$rc t=$(( $(date +%s) - start ))s $clauses"
  if [ $rc -ne 1 ]; then echo "$out" | grep -v conda | tail -5 | cut -c1-300; fi
done
