#!/venv/bin/python
"""mkmutant.py <name> <repo-relative file> <old> <new> [count]  -> mutants/<name>.diff (git-apply-able; /repo untouched)"""
import sys, difflib, os
name, rel, old, new = sys.argv[1:5]
which = int(sys.argv[5]) if len(sys.argv) > 5 else None
src = open(os.path.join('/repo', rel)).read()
n = src.count(old)
if n == 0:
    sys.exit('old text not found in %s' % rel)
if n > 1 and which is None:
    sys.exit('old text found %d times; give an occurrence index' % n)
if which is None:
    dst = src.replace(old, new)
else:
    parts = src.split(old)
    dst = old.join(parts[:which + 1]) + new + old.join(parts[which + 1:])
diff = ''.join(difflib.unified_diff(src.splitlines(True), dst.splitlines(True), 'a/' + rel, 'b/' + rel))
out = os.path.join('/verif/mutants', name + '.diff')
open(out, 'w').write(diff)
print('wrote', out, '(%d lines)' % diff.count('\n'))
