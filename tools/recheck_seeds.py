#!/venv/bin/python
"""Re-run the quick checks against every kept seeded change (seeded/<id>/patch.diff) with the CURRENT checks.

    recheck_seeds.py [--workers W] [--only GLOB] [--out FILE]

For each seeded change the patch is applied to a scratch git worktree of /repo (never /repo itself) and the checks that were
recorded as detecting it (meta.json: detected_by_quick_checks, else the property's own check) are run in turn with
BYCYCLE_VERIF_REPO pointing at the worktree until one exits 1.  Demo and repository tests are NOT repeated (validate_seed.py
did that when the change was accepted).  One line per change, a summary at the end; exit 0 always (this is a measurement).
"""
import argparse
import fnmatch
import json
import os
import shutil
import subprocess
import sys
import tempfile
import time
from concurrent.futures import ThreadPoolExecutor

VERIF = os.path.dirname(os.path.dirname(os.path.abspath(__file__)))
PY = '/venv/bin/python'


def sh(cmd, env=None, timeout=1500):
    try:
        p = subprocess.run(cmd, env=env, stdout=subprocess.PIPE, stderr=subprocess.STDOUT, timeout=timeout)
        return p.returncode, p.stdout.decode(errors='replace')
    except subprocess.TimeoutExpired:
        return 124, 'timeout'


def main():
    ap = argparse.ArgumentParser()
    ap.add_argument('--workers', type=int, default=3)
    ap.add_argument('--only', default='*')
    ap.add_argument('--seed', default='1')
    ap.add_argument('--out', default=os.path.join(VERIF, '.work', 'recheck_seeds.jsonl'))
    a = ap.parse_args()
    os.makedirs(os.path.dirname(a.out), exist_ok=True)
    names = sorted(n for n in os.listdir(os.path.join(VERIF, 'seeded')) if fnmatch.fnmatch(n, a.only))
    wts = []
    for _ in range(a.workers):
        wt = tempfile.mkdtemp(prefix='bycycle-recheck-', dir='/tmp')
        os.rmdir(wt)
        subprocess.check_call(['git', '-C', '/repo', 'worktree', 'add', '-q', '--detach', wt, 'HEAD'])
        wts.append(wt)
    free = list(wts)
    results = []

    def work(name):
        d = os.path.join(VERIF, 'seeded', name)
        meta = json.load(open(os.path.join(d, 'meta.json')))
        rec = meta.get('detected_by_quick_checks') or {}
        hits = [k for k, v in rec.items() if isinstance(v, dict) and v.get('exit') == 1]
        checks = hits + [k for k in rec if k not in hits] or [meta['property']]
        if meta['property'] not in checks:
            checks.append(meta['property'])
        wt = free.pop()
        res = {'name': name, 'checks': [], 'caught_by': None}
        try:
            rc, out = sh(['git', '-C', wt, 'apply', os.path.join(d, 'patch.diff')])
            if rc != 0:
                res['error'] = 'patch does not apply'
                return res
            for c in checks:
                t0 = time.time()
                rc, out = sh([PY, os.path.join(VERIF, 'pbt', 'run.py'), c, '--tier', 'quick', '--no-evidence'],
                             env=dict(os.environ, BYCYCLE_VERIF_REPO=wt, VERIF_REPLAY_DIR=os.path.join(VERIF, '.work', 'recheck-replays'), VERIF_SEED=a.seed))
                clauses = sorted(set(l.split('violated clause ')[1].strip() for l in out.splitlines() if 'violated clause' in l))
                res['checks'].append({'check': c, 'exit': rc, 'seconds': round(time.time() - t0, 1), 'clauses': clauses[:2]})
                if rc == 1:
                    res['caught_by'] = c
                    break
            return res
        finally:
            sh(['git', '-C', wt, 'checkout', '-q', '--', '.'])
            sh(['git', '-C', wt, 'clean', '-fdq'])
            free.append(wt)
    try:
        with ThreadPoolExecutor(max_workers=a.workers) as ex:
            for res in ex.map(work, names):
                results.append(res)
                with open(a.out, 'a') as fh:
                    fh.write(json.dumps(res) + '\n')
                print('%-8s %-10s %s' % (res['name'], res['caught_by'] or ('ERROR' if res.get('error') else 'not-caught'),
                                         '; '.join('%s:%s' % (c['check'], (c['clauses'] or [''])[0][:60]) for c in res['checks'] if c['exit'] == 1)), flush=True)
    finally:
        for wt in wts:
            subprocess.call(['git', '-C', '/repo', 'worktree', 'remove', '--force', wt])
            shutil.rmtree(wt, ignore_errors=True)
        subprocess.call(['git', '-C', '/repo', 'worktree', 'prune'])
    caught = sum(1 for r in results if r['caught_by'])
    print('SUMMARY %d seeded changes, %d caught by the current quick checks, not caught: %s' % (
        len(results), caught, ' '.join(r['name'] for r in results if not r['caught_by'])))


if __name__ == '__main__':
    sys.exit(main())
