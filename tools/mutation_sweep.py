#!/venv/bin/python
"""Systematic mutation sweep (sensitivity measurement at scale).

    mutation_sweep.py [--max N] [--seed S] [--workers W] [--out FILE]

Generates first-order mutants of the anchored source files with a handful of AST operators, keeps those that still pass the
repository's 34 baseline tests (the "realistic changes that still pass the existing tests"), and runs the quick checks of
the properties anchored in the mutated file against a scratch worktree (never /repo) until one reports a VIOLATION.
One JSON line per mutant is appended to the output file; a summary is printed at the end.
"""
import argparse
import ast
import copy
import json
import os
import random
import shutil
import subprocess
import sys
import tempfile
import time
from concurrent.futures import ThreadPoolExecutor

VERIF = os.path.dirname(os.path.dirname(os.path.abspath(__file__)))
PY = '/venv/bin/python'

FILES = ['bycycle/features/features.py', 'bycycle/features/cyclepoints.py', 'bycycle/features/shape.py', 'bycycle/features/burst.py',
         'bycycle/cyclepoints/extrema.py', 'bycycle/cyclepoints/zerox.py', 'bycycle/cyclepoints/phase.py',
         'bycycle/burst/cycle.py', 'bycycle/burst/amp.py', 'bycycle/burst/utils.py',
         'bycycle/group/features.py', 'bycycle/group/utils.py', 'bycycle/objs/fit.py',
         'bycycle/utils/dataframes.py', 'bycycle/utils/timeseries.py',
         'bycycle/plts/burst.py', 'bycycle/plts/cyclepoints.py']

CMP = {ast.Lt: ast.LtE, ast.LtE: ast.Lt, ast.Gt: ast.GtE, ast.GtE: ast.Gt, ast.Eq: ast.NotEq, ast.NotEq: ast.Eq,
       ast.Is: ast.IsNot, ast.IsNot: ast.Is}
BIN = {ast.Add: ast.Sub, ast.Sub: ast.Add, ast.Mult: ast.Div, ast.Div: ast.Mult, ast.BitAnd: ast.BitOr, ast.BitOr: ast.BitAnd}
NAMES = {'min': 'max', 'max': 'min', 'argmin': 'argmax', 'argmax': 'argmin', 'nanmin': 'nanmax', 'ceil': 'floor', 'floor': 'ceil',
         'any': 'all', 'all': 'any', 'imap': 'imap_unordered'}


def checks_for(path):
    out = []
    for line in open(os.path.join(VERIF, 'properties.jsonl')):
        p = json.loads(line)
        if path in p['anchors']['files']:
            out.append(p['id'])
    return out


class Collector(ast.NodeVisitor):
    """enumerate mutation sites as (kind, node id) in a deterministic order"""

    def __init__(self):
        self.sites = []
        self.in_doc = False

    def generic_visit(self, node):
        if isinstance(node, ast.Compare) and len(node.ops) == 1 and type(node.ops[0]) in CMP:
            self.sites.append(('cmp', node))
        elif isinstance(node, ast.BinOp) and type(node.op) in BIN:
            self.sites.append(('bin', node))
        elif isinstance(node, ast.BoolOp):
            self.sites.append(('bool', node))
        elif isinstance(node, ast.UnaryOp) and isinstance(node.op, (ast.Not, ast.Invert, ast.USub)):
            self.sites.append(('unary', node))
        elif isinstance(node, ast.Constant) and isinstance(node.value, int) and not isinstance(node.value, bool) and abs(node.value) <= 3:
            self.sites.append(('const', node))
        elif isinstance(node, ast.Attribute) and node.attr in NAMES:
            self.sites.append(('attr', node))
        elif isinstance(node, ast.Name) and node.id in NAMES and isinstance(node.ctx, ast.Load):
            self.sites.append(('name', node))
        elif isinstance(node, ast.Call) and isinstance(node.func, ast.Attribute) and node.func.attr == 'copy' and not node.args:
            self.sites.append(('copy', node))
        elif isinstance(node, ast.Call) and isinstance(node.func, ast.Name) and node.func.id == 'deepcopy' and len(node.args) == 1:
            self.sites.append(('deepcopy', node))
        elif isinstance(node, ast.If):
            self.sites.append(('ifneg', node))
        super().generic_visit(node)


def strip_docstrings(tree):
    for node in ast.walk(tree):
        if isinstance(node, (ast.FunctionDef, ast.ClassDef, ast.Module)):
            body = node.body
            if body and isinstance(body[0], ast.Expr) and isinstance(getattr(body[0], 'value', None), ast.Constant) \
                    and isinstance(body[0].value.value, str):
                node.body = body[1:] or [ast.Pass()]
    return tree


def mutate(src, index):
    """-> (new source, description) for the index-th site, or None"""
    tree = ast.parse(src)
    col = Collector()
    col.visit(strip_docstrings(copy.deepcopy(tree)))
    n_sites = len(col.sites)
    tree2 = strip_docstrings(ast.parse(src))
    col2 = Collector()
    col2.visit(tree2)
    if index >= len(col2.sites):
        return None, n_sites
    kind, node = col2.sites[index]
    line = getattr(node, 'lineno', 0)
    before = ast.unparse(node)[:80]
    if kind == 'cmp':
        node.ops = [CMP[type(node.ops[0])]()]
    elif kind == 'bin':
        node.op = BIN[type(node.op)]()
    elif kind == 'bool':
        node.op = ast.Or() if isinstance(node.op, ast.And) else ast.And()
    elif kind == 'unary':
        # drop the operator: replace in parent is awkward, so turn it into a no-op equivalent
        if isinstance(node.op, ast.USub):
            node.op = ast.UAdd()
        else:
            node.op = ast.UAdd() if isinstance(node.op, ast.Invert) else ast.Not()
            if isinstance(node.op, ast.Not):
                node.operand = ast.UnaryOp(op=ast.Not(), operand=node.operand)
    elif kind == 'const':
        node.value = node.value + 1
    elif kind == 'attr':
        node.attr = NAMES[node.attr]
    elif kind == 'name':
        node.id = NAMES[node.id]
    elif kind == 'copy':
        val = node.func.value
        node.func = ast.Name(id='_identity', ctx=ast.Load())
        node.args = [val]
    elif kind == 'deepcopy':
        node.func = ast.Name(id='_identity', ctx=ast.Load())
    elif kind == 'ifneg':
        node.test = ast.UnaryOp(op=ast.Not(), operand=node.test)
    ast.fix_missing_locations(tree2)
    new = ast.unparse(tree2)
    if kind in ('copy', 'deepcopy'):
        new = 'def _identity(x=None):\n    return x\n\n' + new
    after = ast.unparse(node)[:80]
    return (new, '%s line %d: %s  ->  %s' % (kind, line, before, after)), n_sites


def fix_copy_calls(src_tree):
    return src_tree


def sh(cmd, cwd=None, env=None, timeout=1500):
    try:
        p = subprocess.run(cmd, cwd=cwd, env=env, stdout=subprocess.PIPE, stderr=subprocess.STDOUT, timeout=timeout)
        return p.returncode, p.stdout.decode(errors='replace')
    except subprocess.TimeoutExpired:
        return 124, 'timeout'


def run_mutant(job, stable_ids, wt):
    path, index, new_src, desc, checks = job
    target = os.path.join(wt, path)
    orig = open(target).read()
    res = {'file': path, 'site': index, 'mutation': desc}
    try:
        open(target, 'w').write(new_src)
        rc, out = sh([PY, '-c', 'import sys; sys.path.insert(0, %r); import bycycle, bycycle.plts, bycycle.group' % wt],
                     env=dict(os.environ, MPLBACKEND='Agg'))
        if rc != 0:
            res['status'] = 'does-not-import'
            return res
        rc, out = sh([PY, '-m', 'pytest', '-q', '-x', '-p', 'no:cacheprovider', '--timeout=300'] + stable_ids, cwd=wt,
                     env=dict(os.environ, MPLBACKEND='Agg'), timeout=600)
        if rc != 0:
            res['status'] = 'killed-by-repo-tests'
            return res
        res['status'] = 'survived'
        res['checks_run'] = []
        for c in checks:
            t0 = time.time()
            rc, out = sh([PY, os.path.join(VERIF, 'pbt', 'run.py'), c, '--tier', 'quick', '--no-evidence'],
                         env=dict(os.environ, BYCYCLE_VERIF_REPO=wt, VERIF_REPLAY_DIR=os.path.join(VERIF, '.work', 'sweep-replays'),
                                  VERIF_SEED=str(1 + index % 5)))
            clauses = sorted(set(l.split('violated clause ')[1].strip() for l in out.splitlines() if 'violated clause' in l))
            res['checks_run'].append({'check': c, 'exit': rc, 'seconds': round(time.time() - t0, 1), 'clauses': clauses[:3]})
            if rc == 1:
                res['status'] = 'killed'
                res['killed_by'] = c
                break
            if rc == 2:
                res.setdefault('harness_errors', []).append(c)
        return res
    finally:
        open(target, 'w').write(orig)


def main():
    ap = argparse.ArgumentParser()
    ap.add_argument('--max', type=int, default=120)
    ap.add_argument('--seed', type=int, default=1)
    ap.add_argument('--workers', type=int, default=3)
    ap.add_argument('--out', default=os.path.join(VERIF, '.work', 'mutation_sweep.jsonl'))
    ap.add_argument('--repo', default='/repo')
    a = ap.parse_args()
    os.makedirs(os.path.dirname(a.out), exist_ok=True)
    base = json.load(open('/root/.vp/BASELINE.json'))
    stable = sorted(set(t.split('::')[0].replace('.', '/') + '.py::' + t.split('::')[1] for t in base['stable_pass']))
    jobs = []
    for path in FILES:
        src = open(os.path.join(a.repo, path)).read()
        _, n = mutate(src, 10 ** 9)
        for i in range(n):
            jobs.append((path, i))
    rng = random.Random(a.seed)
    rng.shuffle(jobs)
    jobs = jobs[:a.max]
    print('%d mutation sites in total, %d sampled' % (sum(1 for _ in jobs), len(jobs)), flush=True)
    wts = []
    for w in range(a.workers):
        wt = tempfile.mkdtemp(prefix='bycycle-sweep-', dir='/tmp')
        os.rmdir(wt)
        subprocess.check_call(['git', '-C', a.repo, 'worktree', 'add', '-q', '--detach', wt, 'HEAD'])
        wts.append(wt)
    free = list(wts)
    results = []

    def work(job):
        path, i = job
        src = open(os.path.join(a.repo, path)).read()
        m, _ = mutate(src, i)
        if m is None:
            return None
        new_src, desc = m
        try:
            compile(new_src, path, 'exec')
        except SyntaxError:
            return {'file': path, 'site': i, 'mutation': desc, 'status': 'does-not-compile'}
        wt = free.pop()
        try:
            return run_mutant((path, i, new_src, desc, checks_for(path)), stable, wt)
        finally:
            free.append(wt)
    try:
        with ThreadPoolExecutor(max_workers=a.workers) as ex:
            for res in ex.map(work, jobs):
                if res is None:
                    continue
                results.append(res)
                with open(a.out, 'a') as fh:
                    fh.write(json.dumps(res) + '\n')
                print('%-22s %-30s %s' % (res['status'] + ('(' + res.get('killed_by', '') + ')' if res.get('killed_by') else ''), res['file'], res['mutation'][:110]), flush=True)
    finally:
        for wt in wts:
            subprocess.call(['git', '-C', a.repo, 'worktree', 'remove', '--force', wt])
            shutil.rmtree(wt, ignore_errors=True)
        subprocess.call(['git', '-C', a.repo, 'worktree', 'prune'])
    from collections import Counter
    c = Counter(r['status'] for r in results)
    print('SUMMARY', dict(c))
    alive = c.get('killed', 0) + c.get('survived', 0)
    if alive:
        print('mutation score among mutants that pass the repository tests: %d / %d = %.1f%%' % (c.get('killed', 0), alive, 100.0 * c.get('killed', 0) / alive))


if __name__ == '__main__':
    sys.exit(main())
