#!/usr/bin/env python3
"""Validate MANIFEST.json and evidence/*.json against the schemas (run with python3-vt, which has jsonschema)."""
import json, glob, sys
import jsonschema
bad = 0
m = json.load(open('/verif/MANIFEST.json'))
jsonschema.validate(m, json.load(open('/root/.vp/MANIFEST.schema.json')))
es = json.load(open('/root/.vp/EVIDENCE.schema.json'))
for f in sorted(glob.glob('/verif/evidence/*.json')):
    try:
        jsonschema.validate(json.load(open(f)), es)
    except Exception as e:
        bad += 1; print('INVALID', f, str(e)[:300])
ids = [json.loads(l)['id'] for l in open('/verif/properties.jsonl')]
claimed = [c['property_id'] for c in m['checks']]
na = [c['property_id'] for c in m.get('not_applicable', [])]
print('claimed', len(claimed), 'n/a', len(na), 'unaccounted', [i for i in ids if i not in claimed and i not in na])
sys.exit(1 if bad else 0)
